// Emits `#[path = "$WALLEYE_REPO/src/X.rs"] pub mod X;` for every module file of the engine
// except main.rs, so that the engine's real sources are compiled into the harness crate and a
// change that adds a module still builds. rustc's dep-info makes cargo rebuild whenever one of
// those files changes.
use std::{env, fs, path::PathBuf};
fn main() {
    let repo = env::var("WALLEYE_REPO").unwrap_or_else(|_| "/repo".to_string());
    println!("cargo:rerun-if-env-changed=WALLEYE_REPO");
    let src = PathBuf::from(&repo).join("src");
    println!("cargo:rerun-if-changed={}", src.display());
    let mut mods: Vec<String> = fs::read_dir(&src)
        .unwrap_or_else(|e| panic!("cannot read {}: {}", src.display(), e))
        .filter_map(|e| e.ok())
        .map(|e| e.path())
        .filter(|p| p.extension().map(|x| x == "rs").unwrap_or(false))
        .filter(|p| p.file_stem().unwrap() != "main")
        .map(|p| p.file_stem().unwrap().to_string_lossy().to_string())
        .collect();
    mods.sort();
    let mut out = String::new();
    for m in &mods {
        println!("cargo:rerun-if-changed={}/{}.rs", src.display(), m);
        out += &format!(
            "#[allow(dead_code, unused_imports, unused_variables, clippy::all)]\n#[path = \"{}/{}.rs\"]\npub mod {};\n",
            src.display(), m, m
        );
    }
    fs::write(PathBuf::from(env::var("OUT_DIR").unwrap()).join("repo_mods.rs"), out).unwrap();
    println!("cargo:rustc-env=WALLEYE_REPO_AT_BUILD={}", repo);
}
