#![no_main]
#![allow(dead_code, unused_imports)]
// libFuzzer target for C15: bytes -> from_fen, with the semantic oracle inside the target.
include!(concat!(env!("OUT_DIR"), "/repo_mods.rs"));
#[path = "../../src/oracle.rs"]
mod oracle;
#[path = "../../src/bridge.rs"]
mod bridge;
#[path = "../../src/gen.rs"]
mod gen;
#[path = "../../src/runner.rs"]
mod runner;
mod props {
    #[path = "../../../src/props/movegen.rs"]
    pub mod movegen;
    #[path = "../../../src/props/fen.rs"]
    pub mod fen;
}
use libfuzzer_sys::fuzz_target;

fuzz_target!(|data: &[u8]| {
    if let Ok(s) = std::str::from_utf8(data) {
        let mut st = runner::Stats::new();
        // c15_string catches panics of from_fen itself and returns Err; turn any Err into a crash
        if let Err(m) = props::fen::c15_string(s, &mut st) {
            panic!("C15: {}", m);
        }
    }
});
