#![no_main]
#![allow(dead_code, unused_imports)]
// libFuzzer target for C01/C02/C05/C13: bytes -> position recipe + move choices -> differential
// against the rules oracle inside the target. FUZZ_PROP selects which property's oracle is active.
include!(concat!(env!("OUT_DIR"), "/repo_mods.rs"));
#[path = "../../src/oracle.rs"]
mod oracle;
#[path = "../../src/bridge.rs"]
mod bridge;
#[path = "../../src/gen.rs"]
mod gen;
#[path = "../../src/runner.rs"]
mod runner;
#[path = "../../src/fuzzdecode.rs"]
mod fuzzdecode;
mod props {
    #[path = "../../../src/props/movegen.rs"]
    pub mod movegen;
    #[path = "../../../src/props/hash.rs"]
    pub mod hash;
}
use libfuzzer_sys::fuzz_target;
use std::collections::HashMap;

fuzz_target!(|data: &[u8]| {
    let Some((start, choices)) = fuzzdecode::decode_movegen(data) else { return };
    let recipe = gen::WalkRecipe { start: gen::Start::Corpus(0), choices: choices.clone() };
    // walk from `start` with the decoded choices
    let mut p = start.clone();
    let mut moves = vec![];
    for &c in &recipe.choices {
        let mut ms = p.legal_moves();
        if ms.is_empty() {
            break;
        }
        ms.sort();
        let m = gen::pick_weighted(&p, &ms, c);
        p = p.apply(&m);
        moves.push(m);
    }
    let prop = std::env::var("FUZZ_PROP").unwrap_or_else(|_| "ALL".into());
    let mut st = runner::Stats::new();
    let on = |x: &str| prop == "ALL" || prop == x;
    if on("C01") {
        if let Err(m) = props::movegen::walk_check(props::movegen::Which::C01, &start, &moves, &mut st) {
            panic!("C01: {}", m);
        }
    }
    if on("C02") {
        if let Err(m) = props::movegen::walk_check(props::movegen::Which::C02, &start, &moves, &mut st) {
            panic!("C02: {}", m);
        }
    }
    if on("C05") {
        let mut seen = HashMap::new();
        if let Err(m) = props::hash::c05_case(&start, &moves, &mut st, &mut seen) {
            panic!("C05: {}", m);
        }
    }
    if on("C13") {
        if let Err(m) = props::movegen::c13_case_depth(&start, &moves, &[0, 0, 0, 0], 2, &mut st) {
            panic!("C13: {}", m);
        }
    }
});
