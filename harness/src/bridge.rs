//! Conversions between the engine's `BoardState` and the oracle's `Pos`, the from-scratch
//! Zobrist recomputation, and panic capture.
#![allow(dead_code)]
use crate::board::{BoardState, Piece, PieceColor, PieceKind, Point, Square};
use crate::move_generation::{generate_moves, CastlingType, MoveGenerationMode};
use crate::oracle::*;
use crate::zobrist::ZobristHasher;
use std::cell::RefCell;
use std::panic::{self, AssertUnwindSafe};

pub fn pt2sq(p: Point) -> u8 {
    ((9 - p.0) * 8 + (p.1 - 2)) as u8
}
pub fn pt_on_board(p: Point) -> bool {
    (2..10).contains(&p.0) && (2..10).contains(&p.1)
}
pub fn sq2pt(s: u8) -> Point {
    Point(9 - (s / 8) as usize, (s % 8) as usize + 2)
}
pub fn kind_of(k: PieceKind) -> Kind {
    match k {
        PieceKind::Pawn => Kind::Pawn,
        PieceKind::Knight => Kind::Knight,
        PieceKind::Bishop => Kind::Bishop,
        PieceKind::Rook => Kind::Rook,
        PieceKind::Queen => Kind::Queen,
        PieceKind::King => Kind::King,
    }
}
pub fn ekind_of(k: Kind) -> PieceKind {
    match k {
        Kind::Pawn => PieceKind::Pawn,
        Kind::Knight => PieceKind::Knight,
        Kind::Bishop => PieceKind::Bishop,
        Kind::Rook => PieceKind::Rook,
        Kind::Queen => PieceKind::Queen,
        Kind::King => PieceKind::King,
    }
}
pub fn col_of(c: PieceColor) -> Color {
    if c == PieceColor::White {
        Color::White
    } else {
        Color::Black
    }
}
pub fn ecol_of(c: Color) -> PieceColor {
    if c == Color::White {
        PieceColor::White
    } else {
        PieceColor::Black
    }
}

/// Engine board -> oracle position. Also checks the structural invariant of the 12x12 mailbox:
/// the two sentinel rings are still `Boundary` and the 8x8 interior holds no `Boundary`.
pub fn to_pos(b: &BoardState) -> Result<Pos, String> {
    let mut p = Pos::empty();
    for r in 0..12 {
        for c in 0..12 {
            let inside = (2..10).contains(&r) && (2..10).contains(&c);
            match b.board[r][c] {
                Square::Boundary => {
                    if inside {
                        return Err(format!("Boundary square inside the board at row {} col {}", r, c));
                    }
                }
                Square::Empty => {
                    if !inside {
                        return Err(format!("Empty square in the sentinel ring at row {} col {}", r, c));
                    }
                }
                Square::Full(pc) => {
                    if !inside {
                        return Err(format!("piece in the sentinel ring at row {} col {}", r, c));
                    }
                    p.sq[pt2sq(Point(r, c)) as usize] = Some((col_of(pc.color), kind_of(pc.kind)));
                }
            }
        }
    }
    p.stm = col_of(b.to_move);
    p.wk = b.white_king_side_castle;
    p.wq = b.white_queen_side_castle;
    p.bk = b.black_king_side_castle;
    p.bq = b.black_queen_side_castle;
    p.ep = match b.pawn_double_move {
        Some(pt) => {
            if !pt_on_board(pt) {
                return Err(format!("en passant square off the board: {:?}", pt));
            }
            Some(pt2sq(pt))
        }
        None => None,
    };
    Ok(p)
}

/// the move descriptor a successor carries: (from, to, promotion piece)
pub fn desc(b: &BoardState) -> Result<Move, String> {
    let (f, t) = b.last_move.ok_or("successor carries no last_move")?;
    if !pt_on_board(f) || !pt_on_board(t) {
        return Err(format!("last_move off the board: {:?} {:?}", f, t));
    }
    Ok(Move { from: pt2sq(f), to: pt2sq(t), promo: b.pawn_promotion.map(|p| kind_of(p.kind)) })
}
/// the text `send_best_move_to_gui` would print for this successor
pub fn desc_text(b: &BoardState) -> String {
    let (f, t) = b.last_move.unwrap();
    match b.pawn_promotion {
        Some(p) => format!("{}{}{}", f, t, p.kind.alg()),
        None => format!("{}{}", f, t),
    }
}

/// the text the ENGINE prints for this successor: its own `send_best_move_to_gui`, captured through
/// the output hook ("bestmove e7e8q" -> "e7e8q")
pub fn engine_bestmove_text(b: &BoardState) -> Result<String, String> {
    crate::verif_hooks::arm_sink();
    let r = catch(|| crate::uci::verif_send_best_move_to_gui(b));
    let lines = crate::verif_hooks::take_sink();
    r.map_err(|e| format!("send_best_move_to_gui panicked: {}", e))?;
    let line = lines.into_iter().map(|x| x.1).find(|l| l.starts_with("bestmove ")).ok_or("send_best_move_to_gui printed no bestmove line")?;
    Ok(line["bestmove ".len()..].to_string())
}

/// The key recomputed from scratch through the hasher's public getters only: placement, side to
/// move, four castling rights, file of the en passant target.
pub fn scratch_key(b: &BoardState, z: &ZobristHasher) -> u64 {
    let mut k = 0u64;
    for r in 2..10 {
        for c in 2..10 {
            if let Square::Full(p) = b.board[r][c] {
                k ^= z.get_val_for_piece(p, Point(r, c));
            }
        }
    }
    if b.to_move == PieceColor::Black {
        k ^= z.get_black_to_move_val();
    }
    if b.white_king_side_castle {
        k ^= z.get_val_for_castling(CastlingType::WhiteKingSide);
    }
    if b.white_queen_side_castle {
        k ^= z.get_val_for_castling(CastlingType::WhiteQueenSide);
    }
    if b.black_king_side_castle {
        k ^= z.get_val_for_castling(CastlingType::BlackKingSide);
    }
    if b.black_queen_side_castle {
        k ^= z.get_val_for_castling(CastlingType::BlackQueenSide);
    }
    if let Some(p) = b.pawn_double_move {
        k ^= z.get_val_for_en_passant(p.1);
    }
    k
}

/// engine board for an oracle position, through the engine's public FEN loader
pub fn board_of(p: &Pos) -> Result<BoardState, String> {
    BoardState::from_fen(&p.fen()).map_err(|e| format!("from_fen rejected the oracle FEN '{}': {}", p.fen(), e))
}

/// compare an engine board field by field with the oracle position it should describe
pub fn diff_board(b: &BoardState, want: &Pos) -> Vec<String> {
    let mut out = vec![];
    match to_pos(b) {
        Err(e) => out.push(format!("malformed board: {}", e)),
        Ok(got) => {
            if got.sq != want.sq {
                out.push(format!("placement is {} but should be {}", got.placement_fen(), want.placement_fen()));
            }
            if got.stm != want.stm {
                out.push(format!("side to move is {:?} but should be {:?}", got.stm, want.stm));
            }
            if (got.wk, got.wq, got.bk, got.bq) != (want.wk, want.wq, want.bk, want.bq) {
                out.push(format!(
                    "castling rights KQkq are {:?} but should be {:?}",
                    (got.wk, got.wq, got.bk, got.bq),
                    (want.wk, want.wq, want.bk, want.bq)
                ));
            }
            if got.ep != want.ep {
                out.push(format!("en passant target is {:?} but should be {:?}", got.ep.map(sq_name), want.ep.map(sq_name)));
            }
        }
    }
    if let Some(k) = want.king_sq(Color::White) {
        if !pt_on_board(b.white_king_location) || pt2sq(b.white_king_location) != k {
            out.push(format!("cached white king square is {:?} but the king stands on {}", b.white_king_location, sq_name(k)));
        }
    }
    if let Some(k) = want.king_sq(Color::Black) {
        if !pt_on_board(b.black_king_location) || pt2sq(b.black_king_location) != k {
            out.push(format!("cached black king square is {:?} but the king stands on {}", b.black_king_location, sq_name(k)));
        }
    }
    out
}

pub fn gen_all(b: &BoardState, z: &ZobristHasher) -> Vec<BoardState> {
    generate_moves(b, MoveGenerationMode::AllMoves, z)
}
pub fn gen_caps(b: &BoardState, z: &ZobristHasher) -> Vec<BoardState> {
    generate_moves(b, MoveGenerationMode::CapturesOnly, z)
}

thread_local! {
    static LAST_PANIC: RefCell<Option<String>> = RefCell::new(None);
}

/// Install a panic hook that records the message per thread instead of printing it. Panics of
/// engine code under test are expected events for some checks; they are reported through the
/// verdict, not through stderr noise.
pub fn install_panic_hook() {
    panic::set_hook(Box::new(|info| {
        let msg = if let Some(s) = info.payload().downcast_ref::<&str>() {
            s.to_string()
        } else if let Some(s) = info.payload().downcast_ref::<String>() {
            s.clone()
        } else {
            "panic".to_string()
        };
        let loc = info.location().map(|l| format!(" at {}:{}", l.file(), l.line())).unwrap_or_default();
        LAST_PANIC.with(|p| *p.borrow_mut() = Some(format!("{}{}", msg, loc)));
    }));
}

/// run `f`, turning a panic into Err(message)
pub fn catch<T>(f: impl FnOnce() -> T) -> Result<T, String> {
    match panic::catch_unwind(AssertUnwindSafe(f)) {
        Ok(v) => Ok(v),
        Err(_) => Err(LAST_PANIC.with(|p| p.borrow_mut().take()).unwrap_or_else(|| "panic (no message)".into())),
    }
}
