//! Decoding of libFuzzer byte strings into structured cases (shared by the fuzz targets and by
//! the harness's replay of fuzz artifacts).
#![allow(dead_code)]
use crate::gen::{build_placement, PlacementRecipe};
use crate::oracle::Pos;

/// bytes -> (position, move choices). Layout: [selector, wk, bk, flags, rights, ep, n_men,
/// (kind, colour, square) * n_men, choices as u16 LE ...]. selector < 64 picks a corpus entry
/// instead of a constructed placement.
pub fn decode_movegen(data: &[u8]) -> Option<(Pos, Vec<u16>)> {
    if data.len() < 7 {
        return None;
    }
    let sel = data[0];
    let n_men = (data[6] % 31) as usize;
    let mut i = 7;
    let start = if sel < 64 {
        crate::gen::corpus_pos(sel as usize)
    } else {
        let mut men = vec![];
        for _ in 0..n_men {
            if i + 3 > data.len() {
                break;
            }
            men.push((data[i] % 5, data[i + 1] & 1 == 1, data[i + 2] % 64));
            i += 3;
        }
        let r = PlacementRecipe { wk: data[1] % 64, bk: data[2] % 64, men, white_to_move: data[3] & 1 == 1, rights: data[4] % 16, ep: data[5] % 9 };
        build_placement(&r)?
    };
    let mut choices = vec![];
    while i + 2 <= data.len() && choices.len() < 24 {
        choices.push(u16::from_le_bytes([data[i], data[i + 1]]));
        i += 2;
    }
    Some((start, choices))
}
