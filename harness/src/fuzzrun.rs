//! Thorough tier: coverage-guided libFuzzer campaigns (cargo-fuzz targets in harness/fuzz) with
//! the semantic oracle inside the target. Orchestrated from here so that the campaign's numbers
//! land in the evidence file and a crash artifact becomes a replay file.
use crate::runner::*;
use serde_json::json;
use std::process::Command;

fn cache_dir() -> String {
    std::env::var("VERIF_CACHE").unwrap_or_else(|_| "/verif/.cache".into())
}

/// seed corpus: a few small valid inputs (the guidance: try valid examples, length control off)
fn write_seeds(target: &str, dir: &str) {
    std::fs::create_dir_all(dir).ok();
    if target == "fuzz_movegen" {
        for i in 0..crate::gen::CORPUS.len() {
            let mut v = vec![i as u8, 0, 0, 0, 0, 0, 0];
            for j in 0..12u32 {
                v.extend(((i as u32 * 7919 + j * 104_729) as u16).to_le_bytes());
            }
            std::fs::write(format!("{}/corpus_{}", dir, i), v).ok();
        }
        // constructed placements: castle, promotion, en passant shapes
        let seeds: [&[u8]; 4] = [
            &[200, 4, 60, 1, 15, 0, 4, 3, 1, 7, 3, 1, 0, 3, 0, 63, 3, 0, 56, 10, 0, 200, 0],
            &[201, 4, 60, 1, 0, 0, 3, 0, 1, 48, 0, 1, 54, 3, 0, 57, 0, 0, 1, 1],
            &[202, 10, 50, 1, 0, 4, 2, 0, 0, 35, 0, 1, 36, 0, 0],
            &[203, 0, 63, 0, 0, 0, 6, 4, 1, 9, 4, 0, 54, 1, 1, 18, 2, 0, 45, 3, 1, 27, 0, 0, 20],
        ];
        for (i, s) in seeds.iter().enumerate() {
            std::fs::write(format!("{}/placement_{}", dir, i), s).ok();
        }
    } else {
        for (i, f) in crate::gen::CORPUS.iter().enumerate() {
            std::fs::write(format!("{}/fen_{}", dir, i), f.as_bytes()).ok();
        }
        for (i, f) in ["8/8/8/8/8/8/8/8 w - - 0 1", "8/8/8/8/8/8/8/8 w - e3 0 300", "rnbqkbnr/pppppppp/8/8/8/8/PPPPPPPP/RNBQKBNR b KQkq a6 255 256", "a b c d e f", "k7/8/8/8/8/8/8/K7 w - ax 0 1"].iter().enumerate() {
            std::fs::write(format!("{}/special_{}", dir, i), f.as_bytes()).ok();
        }
    }
}

/// run one campaign; `prop` selects the oracle inside fuzz_movegen (FUZZ_PROP)
pub fn campaign(ctx: &mut Ctx, target: &str, prop: &str, runs_per_job: u64, max_len: u32) {
    let family = format!("libfuzzer_{}", target);
    if family_filtered_out(&family) {
        return;
    }
    let cache = cache_dir();
    let fuzz_dir = format!("{}/harness/fuzz", VERIF_DIR);
    let tdir = format!("{}/target-fuzz", cache);
    let build = Command::new("cargo")
        .args(["+nightly", "fuzz", "build", "--sanitizer", "none", "--target-dir", &tdir])
        .current_dir(&fuzz_dir)
        .env("CARGO_NET_OFFLINE", "true")
        .output();
    let ok = matches!(&build, Ok(o) if o.status.success());
    if !ok {
        let why = match build {
            Ok(o) => String::from_utf8_lossy(&o.stderr).lines().filter(|l| l.starts_with("error")).take(3).collect::<Vec<_>>().join(" | "),
            Err(e) => e.to_string(),
        };
        ctx.inconclusive.push(format!("{}: the fuzz target could not be built ({}); the campaign was skipped - no verdict from it", family, why));
        return;
    }
    let bin = format!("{}/x86_64-unknown-linux-gnu/release/{}", tdir, target);
    let run_dir = format!("{}/fuzz_run/{}_{}_{}", cache, prop, target, std::process::id());
    let _ = std::fs::remove_dir_all(&run_dir);
    let corpus = format!("{}/corpus", run_dir);
    let arts = format!("{}/artifacts/", run_dir);
    std::fs::create_dir_all(&arts).ok();
    write_seeds(target, &corpus);
    let jobs = ctx.workers.max(1);
    let seed = (ctx.seed % 2_000_000_000) + 1; // libFuzzer: 0 means random
    let out = Command::new(&bin)
        .current_dir(&run_dir)
        .env("FUZZ_PROP", prop)
        .arg(&corpus)
        .arg(format!("-runs={}", runs_per_job))
        .arg(format!("-seed={}", seed))
        .arg(format!("-max_len={}", max_len))
        .arg("-len_control=0")
        .arg(format!("-jobs={}", jobs))
        .arg(format!("-workers={}", jobs))
        .arg(format!("-artifact_prefix={}", arts))
        .arg("-print_final_stats=1")
        .output();
    let mut st = Stats::new();
    let mut total_runs = 0u64;
    let mut new_units = 0u64;
    let mut cov = 0u64;
    let mut crash_msgs: Vec<String> = vec![];
    if let Ok(rd) = std::fs::read_dir(&run_dir) {
        for e in rd.flatten() {
            let name = e.file_name().to_string_lossy().to_string();
            if name.starts_with("fuzz-") && name.ends_with(".log") {
                let text = std::fs::read_to_string(e.path()).unwrap_or_default();
                for l in text.lines() {
                    if let Some(r) = l.strip_prefix("stat::number_of_executed_units:") {
                        total_runs += r.trim().parse::<u64>().unwrap_or(0);
                    }
                    if let Some(r) = l.strip_prefix("stat::new_units_added:") {
                        new_units += r.trim().parse::<u64>().unwrap_or(0);
                    }
                    if let Some(ix) = l.find(" cov: ") {
                        if let Some(v) = l[ix + 6..].split(' ').next().and_then(|x| x.parse::<u64>().ok()) {
                            cov = cov.max(v);
                        }
                    }
                    if l.contains("panicked at") || l.starts_with(&format!("{}:", prop)) || l.contains(&format!("{}: ", prop)) {
                        if crash_msgs.len() < 8 {
                            crash_msgs.push(l.to_string());
                        }
                    }
                }
            }
        }
    }
    if out.is_err() {
        ctx.inconclusive.push(format!("{}: could not start {}", family, bin));
        return;
    }
    st.evals(total_runs);
    // non-trivial: inputs that reached new coverage and were kept in the corpus
    let mut kept = vec![];
    if let Ok(rd) = std::fs::read_dir(&corpus) {
        for e in rd.flatten() {
            if let Ok(b) = std::fs::read(e.path()) {
                st.nontrivial(fp(&b));
                if kept.len() < 3 {
                    kept.push(b);
                }
            }
        }
    }
    for k in kept {
        st.sample(|| json!({"fuzz_input_hex": k.iter().map(|b| format!("{:02x}", b)).collect::<String>()}));
    }
    // crash artifacts become replay files
    let mut n_crash = 0;
    if let Ok(rd) = std::fs::read_dir(&arts) {
        for e in rd.flatten() {
            let name = e.file_name().to_string_lossy().to_string();
            if name.starts_with("crash-") || name.starts_with("timeout-") || name.starts_with("oom-") {
                let bytes = std::fs::read(e.path()).unwrap_or_default();
                if name.starts_with("crash-") {
                    n_crash += 1;
                    let msg = crash_msgs.iter().find(|m| m.contains(prop)).or(crash_msgs.first()).cloned().unwrap_or_else(|| "the fuzz target's oracle failed (see replay)".into());
                    ctx.violation(&family, json!({"fuzz_target": target, "bytes_hex": bytes.iter().map(|b| format!("{:02x}", b)).collect::<String>()}), format!("libFuzzer found an input on which the in-target oracle fails: {}", msg));
                } else {
                    ctx.inconclusive.push(format!("{}: libFuzzer reported {} (resource limit, not a verdict)", family, name));
                }
            }
        }
    }
    let _ = n_crash;
    ctx.family_done(&family, st, json!({"driver": "libFuzzer (cargo-fuzz)", "jobs": jobs, "runs_per_job": runs_per_job, "seed": seed, "edge_coverage": cov, "new_units_added": new_units, "max_len": max_len, "oracle_in_target": prop}));
    let _ = std::fs::remove_dir_all(&run_dir);
}

/// replay of a fuzz artifact stored as hex in a replay JSON
pub fn bytes_of(case: &serde_json::Value) -> Option<Vec<u8>> {
    let h = case.get("bytes_hex")?.as_str()?;
    (0..h.len() / 2).map(|i| u8::from_str_radix(&h[2 * i..2 * i + 2], 16).ok()).collect()
}
