//! Generators: corpus of start positions, constructive placement recipes (G2/G3), weighted walk
//! recipes (G1). All randomness comes from proptest strategies so that cases shrink and replay.
#![allow(dead_code)]
use crate::oracle::*;
use proptest::prelude::*;
use serde_json::{json, Value};

/// Start positions for walks: the start position, the six chessprogramming.org perft positions
/// (the same ones the repository's tests use), castling/ep/promotion-rich middlegames, endgames.
pub const CORPUS: &[&str] = &[
    "rnbqkbnr/pppppppp/8/8/8/8/PPPPPPPP/RNBQKBNR w KQkq - 0 1",
    "r3k2r/p1ppqpb1/bn2pnp1/3PN3/1p2P3/2N2Q1p/PPPBBPPP/R3K2R w KQkq - 0 1",
    "8/2p5/3p4/KP5r/1R3p1k/8/4P1P1/8 w - - 0 1",
    "r3k2r/Pppp1ppp/1b3nbN/nP6/BBP1P3/q4N2/Pp1P2PP/R2Q1RK1 w kq - 0 1",
    "r2q1rk1/pP1p2pp/Q4n2/bbp1p3/Np6/1B3NBn/pPPP1PPP/R3K2R b KQ - 0 1",
    "rnbq1k1r/pp1Pbppp/2p5/8/2B5/8/PPP1NnPP/RNBQK2R w KQ - 1 8",
    "r4rk1/1pp1qppp/p1np1n2/2b1p1B1/2B1P1b1/P1NP1N2/1PP1QPPP/R4RK1 w - - 0 10",
    // castling-rich
    "r3k2r/8/8/8/8/8/8/R3K2R w KQkq - 0 1",
    "r3k2r/pppppppp/8/8/8/8/PPPPPPPP/R3K2R b KQkq - 0 1",
    "r3k2r/1b4bq/8/8/8/8/7B/R3K2R w KQkq - 0 1",
    "r3k2r/8/3Q4/8/8/5q2/8/R3K2R b KQkq - 0 1",
    "r3k2r/p6p/8/1n4N1/1N4n1/8/P6P/R3K2R w KQkq - 0 1",
    // en-passant-rich
    "4k3/pppppppp/8/PPPPPPPP/pppppppp/8/PPPPPPPP/4K3 w - - 0 1",
    "rnbqkbnr/1p1p1p1p/8/pPpPpPpP/P1P1P1P1/8/8/RNBQKBNR w KQkq a6 0 1",
    "4k3/2p1p3/8/3P1P2/3p1p2/8/2P1P3/4K3 w - - 0 1",
    "8/8/3k4/8/2pPp3/8/B7/4K2R b K d3 0 1",
    "r3k3/1p6/8/P1P5/1p1p4/8/2P1P3/4K2R b Kq - 0 1",
    // promotion-rich
    "n1n5/PPPk4/8/8/8/8/4Kppp/5N1N b - - 0 1",
    "r3k2r/1P4P1/8/8/8/8/1p4p1/R3K2R w KQkq - 0 1",
    "1r2k2r/P1P3P1/8/8/8/8/p1p3p1/1R2K2R w Kk - 0 1",
    "4k3/P6P/8/8/8/8/p6p/4K3 w - - 0 1",
    "rn2k1nr/1P4P1/8/8/8/8/1p4p1/RN2K1NR b KQkq - 0 1",
    // endgames (few men: searches reach depth 4-6 within small budgets)
    "8/8/8/4k3/8/8/4P3/4K3 w - - 0 1",
    "8/5k2/8/8/8/8/1Q6/4K3 w - - 0 1",
    "8/8/8/3k4/8/8/8/R3K3 w Q - 0 1",
    "8/8/4k3/8/8/2B5/3N4/4K3 w - - 0 1",
    "8/2k5/8/8/8/8/5PP1/6K1 b - - 0 1",
    "6k1/5ppp/8/8/8/8/5PPP/R5K1 w - - 0 1",
    "8/8/8/8/1k6/8/1p6/1K6 b - - 0 1",
    "8/P4k2/8/8/8/8/5K1p/8 w - - 0 1",
    "3k4/8/3K4/8/8/8/8/7R w - - 0 1",
    "8/8/8/8/8/5k2/6q1/7K w - - 0 1",
    "k7/2Q5/1K6/8/8/8/8/8 b - - 0 1",
    "8/8/1r6/8/4k3/8/2K3R1/8 w - - 0 1",
    "8/3n4/8/2k5/8/2K5/3N4/8 b - - 0 1",
    "8/pp4k1/8/8/8/8/PP4K1/8 w - - 0 1",
    "2r3k1/5pp1/7p/8/8/7P/5PP1/2R3K1 b - - 0 1",
    "6k1/8/6K1/8/8/8/8/5Q2 w - - 0 1",
    // assorted middlegames
    "r1bqkbnr/pppp1ppp/2n5/4p3/4P3/5N2/PPPP1PPP/RNBQKB1R w KQkq - 2 3",
    "r1bq1rk1/ppp2ppp/2np1n2/2b1p3/2B1P3/2NP1N2/PPP2PPP/R1BQ1RK1 w - - 0 7",
    "rnbqk2r/pppp1ppp/5n2/2b1p3/2B1P3/5N2/PPPP1PPP/RNBQK2R w KQkq - 4 4",
    "2kr3r/ppp2ppp/2n1bn2/2b1p3/4P3/2NP1N2/PPP1BPPP/R1B2RK1 w - - 0 9",
    "r2qk2r/ppp1bppp/2n1bn2/3pp3/8/1P2PN2/PBPPBPPP/RN1QK2R w KQkq d6 0 6",
    "rnb1kbnr/pp1ppppp/8/q1p5/4P3/5N2/PPPP1PPP/RNBQKB1R w KQkq - 2 3",
    "4r1k1/pp3ppp/2p5/8/3P4/2P2N2/P4PPP/4R1K1 b - - 0 20",
    "r4rk1/pp2ppbp/2n3p1/q1pp4/3P1B2/2P1PN2/PP3PPP/R2Q1RK1 w - - 0 11",
];

pub fn corpus_pos(i: usize) -> Pos {
    Pos::parse_fen(CORPUS[i % CORPUS.len()]).expect("corpus FEN must parse")
}
pub const ENDGAME_RANGE: std::ops::Range<usize> = 22..38;

/// every corpus entry must be a legal position by C01's definition (checked at start-up)
pub fn corpus_self_test() -> Result<(), String> {
    for f in CORPUS {
        let p = Pos::parse_fen(f).ok_or_else(|| format!("corpus FEN does not parse: {}", f))?;
        if !p.is_legal_position() {
            return Err(format!("corpus FEN is not a legal position: {}", f));
        }
    }
    Ok(())
}

// ---------------------------------------------------------------------------------------------
// G2/G3: constructive placements

#[derive(Debug, Clone, PartialEq)]
pub struct PlacementRecipe {
    pub wk: u8,
    pub bk: u8,
    /// (kind index into [P,N,B,R,Q], white?, square)
    pub men: Vec<(u8, bool, u8)>,
    pub white_to_move: bool,
    /// which of KQkq to grant when king and rook are at home
    pub rights: u8,
    /// 0 = no ep target; otherwise (value-1) indexes the geometrically possible ep files
    pub ep: u8,
}

const KINDS5: [Kind; 5] = [Kind::Pawn, Kind::Knight, Kind::Bishop, Kind::Rook, Kind::Queen];

/// Build a position from a recipe. Construction, not rejection: colliding men are skipped, pawns on
/// the rim are skipped, the side to move is flipped when the other side is in check, rights are
/// granted only with king and rook at home, the ep target only where the geometry allows. Returns
/// None only when both kings are in check or adjacent (counted by the caller).
pub fn build_placement(r: &PlacementRecipe) -> Option<Pos> {
    let mut p = Pos::empty();
    if r.wk == r.bk {
        return None;
    }
    p.sq[r.wk as usize] = Some((Color::White, Kind::King));
    p.sq[r.bk as usize] = Some((Color::Black, Kind::King));
    for &(k, w, s) in &r.men {
        if p.sq[s as usize].is_some() {
            continue;
        }
        let kind = KINDS5[k as usize % 5];
        if kind == Kind::Pawn && (s / 8 == 0 || s / 8 == 7) {
            continue;
        }
        p.sq[s as usize] = Some((if w { Color::White } else { Color::Black }, kind));
    }
    p.stm = if r.white_to_move { Color::White } else { Color::Black };
    let wc = p.in_check(Color::White);
    let bc = p.in_check(Color::Black);
    if wc && bc {
        return None;
    }
    if wc {
        p.stm = Color::White;
    }
    if bc {
        p.stm = Color::Black;
    }
    let wkh = p.sq[4] == Some((Color::White, Kind::King));
    let bkh = p.sq[60] == Some((Color::Black, Kind::King));
    p.wk = r.rights & 1 != 0 && wkh && p.sq[7] == Some((Color::White, Kind::Rook));
    p.wq = r.rights & 2 != 0 && wkh && p.sq[0] == Some((Color::White, Kind::Rook));
    p.bk = r.rights & 4 != 0 && bkh && p.sq[63] == Some((Color::Black, Kind::Rook));
    p.bq = r.rights & 8 != 0 && bkh && p.sq[56] == Some((Color::Black, Kind::Rook));
    if r.ep > 0 {
        let (pr, er, or) = if p.stm == Color::White { (4, 5, 6) } else { (3, 2, 1) };
        let mut files = vec![];
        for f in 0..8 {
            if p.sq[mk(f, pr).unwrap() as usize] == Some((p.stm.opp(), Kind::Pawn))
                && p.sq[mk(f, er).unwrap() as usize].is_none()
                && p.sq[mk(f, or).unwrap() as usize].is_none()
            {
                files.push(f);
            }
        }
        if !files.is_empty() {
            let f = files[(r.ep as usize - 1) % files.len()];
            p.ep = mk(f, er);
            if !p.is_legal_position() {
                p.ep = None;
            }
        }
    }
    if p.is_legal_position() {
        Some(p)
    } else {
        None
    }
}

fn any_sq() -> impl Strategy<Value = u8> + Clone {
    0u8..64
}
/// squares biased to corners and home squares
fn biased_sq() -> impl Strategy<Value = u8> + Clone {
    prop_oneof![6 => 0u8..64, 1 => prop_oneof![Just(0u8), Just(7u8), Just(56u8), Just(63u8)], 1 => prop_oneof![Just(4u8), Just(60u8)]]
}
fn man() -> impl Strategy<Value = (u8, bool, u8)> + Clone {
    (prop_oneof![4 => Just(0u8), 1 => Just(1u8), 1 => Just(2u8), 2 => Just(3u8), 1 => Just(4u8)], any::<bool>(), biased_sq())
}

/// G2: general constructive placements, 0-30 further men
pub fn placement_general() -> impl Strategy<Value = PlacementRecipe> + Clone {
    (
        prop_oneof![3 => Just(4u8), 7 => any_sq()],
        prop_oneof![3 => Just(60u8), 7 => any_sq()],
        prop_oneof![3 => proptest::collection::vec(man(), 0..6), 4 => proptest::collection::vec(man(), 0..16), 2 => proptest::collection::vec(man(), 8..31)],
        any::<bool>(),
        prop_oneof![7 => Just(15u8), 3 => 0u8..16],
        prop_oneof![1 => Just(0u8), 1 => 1u8..9],
    )
        .prop_map(|(wk, bk, men, w, rights, ep)| PlacementRecipe { wk, bk, men, white_to_move: w, rights, ep })
}

/// G3 castle: home king and rook(s) with the right for the side to move, the enemy king and up to
/// three enemy men dropped near the castling zone, optionally an own man nearby
pub fn placement_castle() -> impl Strategy<Value = PlacementRecipe> + Clone {
    let zone_w = prop_oneof![Just(1u8), Just(2), Just(3), Just(5), Just(6), Just(9), Just(10), Just(11), Just(12), Just(13), Just(14), Just(15), Just(17), Just(18), Just(19), Just(20), Just(21), Just(22), Just(23), 0u8..64];
    // in a fifth of the recipes the ENEMY is to move with its king next to one of the home rooks
    // (g2 h2 g1 / b2 a2 b1): a king capturing a rook that still carries its castling right
    let raid = prop_oneof![4 => Just(None), 1 => prop_oneof![Just(14u8), Just(15u8), Just(6u8), Just(9u8), Just(8u8), Just(1u8)].prop_map(Some)];
    (any::<bool>(), zone_w.clone(), proptest::collection::vec((0u8..5, any::<bool>(), prop_oneof![2 => zone_w, 1 => 0u8..64]), 0..5), 1u8..4, any::<bool>(), 0u8..9, raid)
        .prop_map(|(white, ekz, men, wings, other_rooks, ep, raid)| {
            let (ekz, men, wings) = match raid {
                Some(k) => (k, men.into_iter().take(2).collect::<Vec<_>>(), if k % 8 >= 4 { wings | 1 } else { wings | 2 }),
                None => (ekz, men, wings),
            };
            // build for white, then mirror for black
            let flip = |s: u8| if white { s } else { (7 - s / 8) * 8 + s % 8 };
            let mut all: Vec<(u8, bool, u8)> = vec![];
            if wings & 1 != 0 {
                all.push((3, white, flip(7)));
            }
            if wings & 2 != 0 {
                all.push((3, white, flip(0)));
            }
            if other_rooks {
                all.push((3, !white, flip(63)));
                all.push((3, !white, flip(56)));
            }
            for (k, own, s) in men {
                // mostly enemy men; an own man now and then (blocks squares between king and rook)
                all.push((k, if own && k % 2 == 0 { white } else { !white }, flip(s)));
            }
            let (wk, bk) = if white { (4u8, if ekz == 4 { 60 } else { ekz }) } else { (if flip(ekz) == 60 { 4 } else { flip(ekz) }, 60u8) };
            PlacementRecipe { wk, bk, men: all, white_to_move: white != raid.is_some(), rights: 15, ep }
        })
}

/// G3 ep: a pawn that has just double-stepped next to an enemy pawn, kings and up to three sliders
/// biased onto the pawns' rank and the diagonals through the vacated squares
pub fn placement_ep() -> impl Strategy<Value = PlacementRecipe> + Clone {
    (any::<bool>(), 0u8..8, any::<bool>(), any::<bool>(), 0u8..64, 0u8..64, proptest::collection::vec((prop_oneof![Just(2u8), Just(3u8), Just(4u8), Just(0u8), Just(1u8)], any::<bool>(), 0u8..64, any::<bool>()), 0..4))
        .prop_map(|(white_captures, file, left, both, k1, k2, extra)| {
            // white_captures: black pawn double-stepped to rank index 4 (fifth rank), white pawn beside it
            let r = if white_captures { 4u8 } else { 3u8 };
            let mut men: Vec<(u8, bool, u8)> = vec![];
            men.push((0, !white_captures, r * 8 + file));
            let nb = |d: i8| -> Option<u8> { let f = file as i8 + d; if (0..8).contains(&f) { Some(r * 8 + f as u8) } else { None } };
            let first = if left { nb(-1).or(nb(1)) } else { nb(1).or(nb(-1)) };
            if let Some(s) = first {
                men.push((0, white_captures, s));
            }
            if both {
                if let Some(s) = if left { nb(1) } else { nb(-1) } {
                    men.push((0, white_captures, s));
                }
            }
            // kings: bias one of them onto the pawns' rank half of the time
            let wk = if k1 % 2 == 0 { r * 8 + (k1 / 8) % 8 } else { k1 };
            let bk = k2;
            for (k, w, s, on_rank) in extra {
                let s = if on_rank { r * 8 + s % 8 } else { s };
                men.push((k, w, s));
            }
            let (wk, bk) = if white_captures { (wk, bk) } else { (bk, wk) };
            PlacementRecipe { wk, bk, men, white_to_move: white_captures, rights: 0, ep: 1 + file }
        })
}

/// G3 promo: pawns on the seventh rank with occupied/empty targets, optionally own king in check
pub fn placement_promo() -> impl Strategy<Value = PlacementRecipe> + Clone {
    (any::<bool>(), proptest::collection::vec((0u8..8, 0u8..4), 1..4), 0u8..64, 0u8..64, proptest::collection::vec(man(), 0..8), prop_oneof![Just(0u8), Just(15u8)])
        .prop_map(|(white, pawns, k1, k2, extra, rights)| {
            let (r7, r8) = if white { (6u8, 7u8) } else { (1u8, 0u8) };
            let mut men: Vec<(u8, bool, u8)> = vec![];
            for (f, what) in pawns {
                men.push((0, white, r7 * 8 + f));
                // what: 0 empty target, 1 enemy piece straight ahead (blocks), 2 enemy piece on a diagonal, 3 both
                if what & 1 != 0 {
                    men.push((1 + f % 4, !white, r8 * 8 + f));
                }
                if what & 2 != 0 && f < 7 {
                    men.push((3, !white, r8 * 8 + f + 1));
                }
            }
            men.extend(extra);
            let (wk, bk) = if white { (k1, k2) } else { (k2, k1) };
            PlacementRecipe { wk, bk, men, white_to_move: white, rights, ep: 0 }
        })
}

/// G3 checks: side to move is in check from one or two placed attackers (contact, distant,
/// double check), with own men around that may block or capture
pub fn placement_checks() -> impl Strategy<Value = PlacementRecipe> + Clone {
    (any::<bool>(), biased_sq(), 0u8..64, proptest::collection::vec((1u8..5, 0u8..8, 1u8..7), 1..3), proptest::collection::vec(man(), 0..8))
        .prop_map(|(white, k, ek, attackers, extra)| {
            let mut men: Vec<(u8, bool, u8)> = vec![];
            let (kf, kr) = ((k % 8) as i8, (k / 8) as i8);
            for (kind, dir, dist) in attackers {
                let d = [(1, 0), (1, 1), (0, 1), (-1, 1), (-1, 0), (-1, -1), (0, -1), (1, -1)][dir as usize];
                let (f, r) = if kind == 1 {
                    let o = [(1, 2), (2, 1), (2, -1), (1, -2), (-1, -2), (-2, -1), (-2, 1), (-1, 2)][dir as usize];
                    (kf + o.0, kr + o.1)
                } else {
                    (kf + d.0 * dist as i8, kr + d.1 * dist as i8)
                };
                if let Some(s) = mk(f, r) {
                    men.push((kind, !white, s));
                }
            }
            men.extend(extra);
            let (wk, bk) = if white { (k, ek) } else { (ek, k) };
            PlacementRecipe { wk, bk, men, white_to_move: white, rights: 15, ep: 0 }
        })
}

/// G3 near-mate: a king on the rim hemmed in, one to three heavy attackers or a seventh-rank pawn
pub fn placement_near_mate() -> impl Strategy<Value = PlacementRecipe> + Clone {
    (any::<bool>(), 0u8..28, proptest::collection::vec((prop_oneof![3 => Just(4u8), 3 => Just(3u8), 1 => Just(2u8), 1 => Just(1u8), 2 => Just(0u8)], 0u8..64), 1..4), 0u8..64, proptest::collection::vec((0u8..5, 0u8..64), 0..4), any::<bool>())
        .prop_map(|(white_attacks, rim, attackers, ak, blockers, defender_to_move)| {
            // defending king somewhere on the rim
            let rim_sq: Vec<u8> = (0..64u8).filter(|s| s / 8 == 0 || s / 8 == 7 || s % 8 == 0 || s % 8 == 7).collect();
            let dk = rim_sq[rim as usize % rim_sq.len()];
            let mut men: Vec<(u8, bool, u8)> = vec![];
            for (k, s) in attackers {
                men.push((k, white_attacks, s));
            }
            for (k, s) in blockers {
                // defender's own men next to its king (self-blocks)
                let (f, r) = ((dk % 8) as i8 + (s % 3) as i8 - 1, (dk / 8) as i8 + ((s / 3) % 3) as i8 - 1);
                if let Some(t) = mk(f, r) {
                    men.push((k, !white_attacks, t));
                }
            }
            let (wk, bk) = if white_attacks { (ak, dk) } else { (dk, ak) };
            PlacementRecipe { wk, bk, men, white_to_move: white_attacks != defender_to_move, rights: 0, ep: 0 }
        })
}

/// G3 heavy mating net: a bare or nearly bare king against three to five heavy and minor pieces -
/// mates of different lengths at sibling nodes, many checks (check extensions)
pub fn placement_heavy_net() -> impl Strategy<Value = PlacementRecipe> + Clone {
    (any::<bool>(), 0u8..64, 0u8..64, proptest::collection::vec((prop_oneof![3 => Just(4u8), 3 => Just(3u8), 2 => Just(2u8), 1 => Just(1u8)], 0u8..64), 3..6), proptest::collection::vec((0u8..4, 0u8..64), 0..2), prop_oneof![3 => Just(true), 1 => Just(false)])
        .prop_map(|(white_attacks, dk, ak, attackers, defenders, attacker_to_move)| {
            let mut men: Vec<(u8, bool, u8)> = vec![];
            for (k, s) in attackers {
                men.push((k, white_attacks, s));
            }
            for (k, s) in defenders {
                men.push((k, !white_attacks, s));
            }
            let (wk, bk) = if white_attacks { (ak, dk) } else { (dk, ak) };
            PlacementRecipe { wk, bk, men, white_to_move: white_attacks == attacker_to_move, rights: 0, ep: 0 }
        })
}

/// G3 advanced pawns: two to five pawns of one side on its fifth to seventh rank (and up to four of
/// the other side likewise advanced), a few pieces, kings anywhere - positions whose positional
/// (piece-square) terms are worth several pawns, so that "material alone" and the real evaluation
/// disagree by a lot (lazy evaluation margins, futility margins)
pub fn placement_advanced_pawns() -> impl Strategy<Value = PlacementRecipe> + Clone {
    (any::<bool>(), 0u8..64, 0u8..64, proptest::collection::vec((0u8..8, 4u8..7), 2..6), proptest::collection::vec((0u8..8, 4u8..7), 0..5), proptest::collection::vec((1u8..5, any::<bool>(), 0u8..64), 0..5), any::<bool>())
        .prop_map(|(white_leads, wk, bk, lead, other, pieces, white_to_move)| {
            let mut men: Vec<(u8, bool, u8)> = vec![];
            // ranks are given from the owner's point of view (index 4..6 = fifth to seventh rank)
            for (f, r) in lead {
                let rr = if white_leads { r } else { 7 - r };
                men.push((0, white_leads, rr * 8 + f));
            }
            for (f, r) in other {
                let rr = if white_leads { 7 - r } else { r };
                men.push((0, !white_leads, rr * 8 + f));
            }
            for (k, w, s) in pieces {
                men.push((k, w, s));
            }
            PlacementRecipe { wk, bk, men, white_to_move, rights: 0, ep: 0 }
        })
}

/// G3 extreme but legal material: up to nine queens, ten rooks / bishops / knights a side (at most
/// eight promotions and fifteen men besides the king each), scattered over the board. Positions with
/// 100-218 legal moves, a dozen sliders of one colour, pieces pinned by the tenth enemy slider: every
/// fixed-size list, counter or "nobody has that many" shortcut in generator, loader or search is at risk.
pub fn placement_crowd() -> impl Strategy<Value = PlacementRecipe> + Clone {
    let side = || proptest::collection::vec((prop_oneof![4 => Just(4u8), 2 => Just(3u8), 1 => Just(2u8), 2 => Just(1u8), 1 => Just(0u8)], 0u8..64), 4..16);
    (0u8..64, 0u8..64, side(), side(), any::<bool>(), 0u8..4, 0u8..12, proptest::collection::vec(0u8..64, 10..=10)).prop_map(|(wk, bk, w, b, white_to_move, lopsided, maxed, squares)| {
        let mut men: Vec<(u8, bool, u8)> = vec![];
        for (white, list) in [(true, w), (false, b)] {
            // maxed: one side gets one kind at its limit first (nine queens, ten rooks / bishops / knights)
            let mut list = list;
            let m = if white { maxed } else { maxed.wrapping_sub(4) };
            if (1..=4).contains(&m) {
                let n = if m == 4 { 9 } else { 10 };
                let mut first: Vec<(u8, u8)> = squares.iter().take(n).map(|&s| (m, s.wrapping_add(if white { 0 } else { 17 }) % 64)).collect();
                first.extend(list);
                list = first;
            }
            // lopsided: one side keeps only a few men (wide open board for the other side's queens)
            let keep = if (lopsided == 1 && !white) || (lopsided == 2 && white) { 2 } else { 15 };
            let (mut q, mut r, mut bi, mut n, mut pw) = (0i32, 0i32, 0i32, 0i32, 0i32);
            let mut count = 0;
            for (k, s) in list {
                let (nq, nr, nb, nn, np) = match k {
                    4 => (q + 1, r, bi, n, pw),
                    3 => (q, r + 1, bi, n, pw),
                    2 => (q, r, bi + 1, n, pw),
                    1 => (q, r, bi, n + 1, pw),
                    _ => (q, r, bi, n, pw + 1),
                };
                let promos = (nq - 1).max(0) + (nr - 2).max(0) + (nb - 2).max(0) + (nn - 2).max(0);
                if count >= keep || nq > 9 || nr > 10 || nb > 10 || nn > 10 || promos + np > 8 {
                    continue;
                }
                (q, r, bi, n, pw) = (nq, nr, nb, nn, np);
                count += 1;
                men.push((k, white, s));
            }
        }
        PlacementRecipe { wk, bk, men, white_to_move, rights: 0, ep: 0 }
    })
}

/// G3 fan: the side to move has five to nine queens (and a rook or two) on an open board while the
/// enemy king hides in a corner behind two of its own pawns and a piece of the mover (so that no line
/// reaches it): 120 to 218 legal moves, the shape of the known move-count records.
pub fn placement_fan() -> impl Strategy<Value = PlacementRecipe> + Clone {
    (any::<bool>(), any::<bool>(), 0u8..64, proptest::collection::vec((prop_oneof![5 => Just(4u8), 1 => Just(3u8)], 0u8..64), 5..11), prop_oneof![Just(1u8), Just(2u8)]).prop_map(|(white_moves, mirror_files, mk, heavy, blocker)| {
        // built for White to move against a black king on a1, then mirrored
        let tr = |s: u8| -> u8 {
            let (mut r, mut f) = (s / 8, s % 8);
            if mirror_files {
                f = 7 - f;
            }
            if !white_moves {
                r = 7 - r;
            }
            r * 8 + f
        };
        let mut men: Vec<(u8, bool, u8)> = vec![(0, !white_moves, tr(8)), (0, !white_moves, tr(9)), (blocker, white_moves, tr(1))];
        // NOTE: pawns of the hiding side stand on their seventh rank from their own point of view
        let (mut q, mut r) = (0, 0);
        for (k, s) in heavy {
            if [0u8, 1, 8, 9].contains(&s) {
                continue;
            }
            if k == 4 && q < 9 {
                q += 1;
                men.push((4, white_moves, tr(s)));
            } else if k == 3 && r < 2 {
                r += 1;
                men.push((3, white_moves, tr(s)));
            }
        }
        let hk = tr(0);
        let mover_king = if [0u8, 1, 8, 9, 2, 10, 16, 17, 18].contains(&mk) { tr(36) } else { tr(mk) };
        let (wk, bk) = if white_moves { (mover_king, hk) } else { (hk, mover_king) };
        PlacementRecipe { wk, bk, men, white_to_move: white_moves, rights: 0, ep: 0 }
    })
}

pub fn recipe_json(r: &PlacementRecipe) -> Value {
    match build_placement(r) {
        Some(p) => json!({"fen": p.fen()}),
        None => json!({"fen": null, "recipe": format!("{:?}", r)}),
    }
}

// ---------------------------------------------------------------------------------------------
// G1: weighted walks

#[derive(Debug, Clone, PartialEq)]
pub enum Start {
    Corpus(usize),
    Placement(PlacementRecipe),
}
#[derive(Debug, Clone, PartialEq)]
pub struct WalkRecipe {
    pub start: Start,
    pub choices: Vec<u16>,
}

pub fn start_pos(s: &Start) -> Option<Pos> {
    match s {
        Start::Corpus(i) => Some(corpus_pos(*i)),
        Start::Placement(r) => build_placement(r),
    }
}

/// weight of a move in a walk: rule-interaction moves are favoured
pub fn move_weight(p: &Pos, m: &Move) -> usize {
    match p.classify(m) {
        MoveClass::Quiet => 2,
        MoveClass::Capture => 5,
        MoveClass::DoubleStep => 6,
        MoveClass::EnPassant => 30,
        MoveClass::Castle => 24,
        MoveClass::Promo => 6,
        MoveClass::PromoCapture => 8,
    }
}

/// map a 16-bit choice monotonically onto the weighted move list (so shrinking the choice walks
/// towards the first move instead of jumping around)
pub fn pick_weighted(p: &Pos, moves: &[Move], choice: u16) -> Move {
    let total: usize = moves.iter().map(|m| move_weight(p, m)).sum();
    let mut t = (choice as usize * total) >> 16;
    for m in moves {
        let w = move_weight(p, m);
        if t < w {
            return *m;
        }
        t -= w;
    }
    moves[moves.len() - 1]
}
pub fn pick_uniform(moves: &[Move], choice: u16) -> Move {
    moves[(choice as usize * moves.len()) >> 16]
}

/// play out a walk on the oracle; returns the start position and the moves actually played (stops
/// at a terminal position)
pub fn play_walk(r: &WalkRecipe) -> Option<(Pos, Vec<Move>)> {
    let start = start_pos(&r.start)?;
    let mut p = start.clone();
    let mut out = vec![];
    for &c in &r.choices {
        let mut ms = p.legal_moves();
        if ms.is_empty() {
            break;
        }
        ms.sort();
        let m = pick_weighted(&p, &ms, c);
        p = p.apply(&m);
        out.push(m);
    }
    Some((start, out))
}

pub fn walk_strategy(max_len: usize) -> impl Strategy<Value = WalkRecipe> + Clone {
    let start = prop_oneof![
        6 => (0usize..CORPUS.len()).prop_map(Start::Corpus),
        1 => placement_general().prop_map(Start::Placement),
        1 => placement_castle().prop_map(Start::Placement),
        1 => placement_promo().prop_map(Start::Placement),
        1 => placement_ep().prop_map(Start::Placement),
        1 => placement_advanced_pawns().prop_map(Start::Placement),
        1 => placement_crowd().prop_map(Start::Placement),
    ];
    (start, proptest::collection::vec(any::<u16>(), 0..max_len)).prop_map(|(start, choices)| WalkRecipe { start, choices })
}
/// corpus entries whose material is reachable in play (the two 32-pawn en passant fantasies are
/// excluded: their capture trees make quiescence, which has no clock check, effectively endless)
pub fn gamelike_indices() -> Vec<usize> {
    (0..CORPUS.len()).filter(|&i| i != 12 && i != 13).collect()
}
/// walks that stay game-like (reachable material): game-like corpus starts only
pub fn gamelike_walk_strategy(max_len: usize) -> impl Strategy<Value = WalkRecipe> + Clone {
    (proptest::sample::select(gamelike_indices()).prop_map(Start::Corpus), proptest::collection::vec(any::<u16>(), 0..max_len)).prop_map(|(start, choices)| WalkRecipe { start, choices })
}
pub fn endgame_walk_strategy(max_len: usize) -> impl Strategy<Value = WalkRecipe> + Clone {
    (ENDGAME_RANGE.prop_map(Start::Corpus), proptest::collection::vec(any::<u16>(), 0..max_len)).prop_map(|(start, choices)| WalkRecipe { start, choices })
}

pub fn walk_json(r: &WalkRecipe) -> Value {
    match play_walk(r) {
        Some((start, moves)) => json!({"fen": start.fen(), "moves": moves.iter().map(mv_name).collect::<Vec<_>>()}),
        None => json!({"fen": null}),
    }
}
pub fn parse_game_case(v: &Value) -> Result<(Pos, Vec<Move>), String> {
    let fen = v.get("fen").and_then(|x| x.as_str()).ok_or("replay case has no fen")?;
    let p = Pos::parse_fen(fen).ok_or("replay fen does not parse")?;
    let mut moves = vec![];
    if let Some(arr) = v.get("moves").and_then(|x| x.as_array()) {
        for m in arr {
            moves.push(parse_mv(m.as_str().ok_or("move is not a string")?).ok_or("bad move text")?);
        }
    }
    Ok((p, moves))
}

/// labels describing the rule interactions present in a position (DESIGN §4.2)
pub fn position_labels(p: &Pos) -> Vec<&'static str> {
    let mut l = vec![];
    let us = p.stm;
    let legal = p.legal_moves();
    let pseudo = p.pseudo();
    if p.in_check(us) {
        l.push("in_check");
        if let Some(k) = p.king_sq(us) {
            if p.attackers(k, us.opp()).len() >= 2 {
                l.push("double_check");
            }
        }
    }
    let has_right = if us == Color::White { p.wk || p.wq } else { p.bk || p.bq };
    if has_right {
        l.push("castle_right_stm");
        let castles = legal.iter().filter(|m| p.classify(m) == MoveClass::Castle).count();
        if castles > 0 {
            l.push("castle_legal");
        }
        // denied although the squares between are empty
        let (home, ks, qs) = if us == Color::White { (4u8, p.wk, p.wq) } else { (60u8, p.bk, p.bq) };
        let mut denied_attack = false;
        let mut denied_king = false;
        let ek = p.king_sq(us.opp()).unwrap_or(0);
        let mut probe = |squares: &[u8], empties: &[u8]| {
            if empties.iter().all(|&s| p.sq[s as usize].is_none()) {
                for &s in squares {
                    if p.attacked(s, us.opp()) {
                        denied_attack = true;
                        if p.man_attacks(ek, (us.opp(), Kind::King), s) {
                            denied_king = true;
                        }
                    }
                }
            }
        };
        if ks {
            probe(&[home, home + 1, home + 2], &[home + 1, home + 2]);
        }
        if qs {
            probe(&[home, home - 1, home - 2], &[home - 1, home - 2, home - 3]);
        }
        if denied_attack {
            l.push("castle_denied_by_attack");
        }
        if denied_king {
            l.push("castle_denied_by_king_adjacency");
        }
    }
    if p.ep.is_some() {
        l.push("ep_target_set");
        let ep_pseudo = pseudo.iter().filter(|m| p.classify(m) == MoveClass::EnPassant).count();
        let ep_legal = legal.iter().filter(|m| p.classify(m) == MoveClass::EnPassant).count();
        if ep_pseudo > 0 {
            l.push("ep_pseudo");
        }
        if ep_legal > 0 {
            l.push("ep_legal");
        }
        if ep_pseudo > ep_legal {
            l.push("ep_illegal_pin");
        }
    }
    if legal.iter().any(|m| m.promo.is_some()) {
        l.push("promo_available");
        if legal.iter().any(|m| p.classify(m) == MoveClass::PromoCapture) {
            l.push("promo_capture");
        }
        if p.in_check(us) {
            l.push("promo_in_check");
        }
    }
    if pseudo.len() > legal.len() && !p.in_check(us) {
        l.push("pinned_piece_or_king_walk");
    }
    if legal.is_empty() {
        l.push(if p.in_check(us) { "checkmate" } else { "stalemate" });
    }
    l
}
pub fn is_interaction_label(l: &str) -> bool {
    l != "castle_right_stm" && l != "ep_target_set"
}
