//! wverif: property-based / fuzzing verification harness for Walleye.
//! Usage: wverif <Cxx> --tier quick|thorough [--replay FILE]
#![allow(dead_code, unused_imports)]
include!(concat!(env!("OUT_DIR"), "/repo_mods.rs"));
mod bridge;
mod fuzzdecode;
mod fuzzrun;
mod gen;
mod oracle;
mod props;
mod runner;

use runner::{Ctx, Tier};
use serde_json::Value;

#[global_allocator]
static GLOBAL: mimalloc::MiMalloc = mimalloc::MiMalloc;

fn usage() -> ! {
    eprintln!("usage: wverif <C01..C18> [--tier quick|thorough] [--replay FILE]");
    std::process::exit(2);
}

fn main() {
    let args: Vec<String> = std::env::args().collect();
    if args.len() < 2 {
        usage();
    }
    let prop = args[1].clone();
    if prop == "dev-forced" {
        let n: u64 = args.get(2).and_then(|x| x.parse().ok()).unwrap_or(1_000_000);
        let mut x: u64 = 99;
        let t0 = std::time::Instant::now();
        let mut hits = 0;
        for _ in 0..n {
            if let Some((s, ms)) = props::searchsem::forced_return_candidate(&mut x) {
                hits += 1;
                if hits <= 6 {
                    println!("{} moves {}", s.fen(), ms.iter().map(oracle::mv_name).collect::<Vec<_>>().join(" "));
                }
            }
        }
        eprintln!("tries {} hits {} in {:?}", n, hits, t0.elapsed());
        return;
    }
    if prop == "dev-zz3" {
        // development aid: prints roots for harness/src/zz_corpus.txt; usage: wverif dev-zz3 <tries> <seed>
        let n: u64 = args.get(2).and_then(|x| x.parse().ok()).unwrap_or(1_000_000);
        let mut x: u64 = args.get(3).and_then(|x| x.parse().ok()).unwrap_or(1) | 1;
        let t0 = std::time::Instant::now();
        let mut stages = [0u64; 8];
        let mut hits = 0;
        for _ in 0..n {
            match props::searchsem::zz3_candidate(&mut x) {
                Ok(p) => {
                    hits += 1;
                    println!("{}", p.fen());
                }
                Err(k) => stages[k as usize] += 1,
            }
        }
        eprintln!("tries {} hits {} in {:?}; rejected at stage {:?}", n, hits, t0.elapsed(), stages);
        return;
    }
    if prop == "dev-zugzwang" {
        let n: u32 = args.get(2).and_then(|x| x.parse().ok()).unwrap_or(1_000_000);
        let t0 = std::time::Instant::now();
        let (mut x, mut hits) = (12345u64, 0u64);
        let mut stages = [0u64; 16];
        for _ in 0..n {
            match props::searchsem::zugzwang_root_stage(&mut x) {
                Ok(p) => {
                    hits += 1;
                    if hits <= 8 {
                        println!("{}", p.fen());
                    }
                }
                Err(k) => stages[k as usize] += 1,
            }
        }
        println!("tries {} hits {} in {:?}; rejected at stage: {:?}", n, hits, t0.elapsed(), stages);
        return;
    }
    if prop == "dev-crosscheck" {
        // development aid: how often does the candidate stream of C11's cross-check family hit?
        let n: u32 = args.get(2).and_then(|x| x.parse().ok()).unwrap_or(1_000_000);
        let t0 = std::time::Instant::now();
        let (mut x, mut cand, mut hits) = (12345u64, 0u64, 0u64);
        for _ in 0..n {
            if let Some(p) = props::searchsem::cross_check_candidate(&mut x) {
                cand += 1;
                if props::searchsem::has_cross_check_line(&p) {
                    hits += 1;
                    if hits <= 5 {
                        println!("{}", p.fen());
                    }
                }
            }
        }
        println!("tries {} candidates {} hits {} in {:?}", n, cand, hits, t0.elapsed());
        return;
    }
    let mut tier = match std::env::var("VERIF_TIER").as_deref() {
        Ok("thorough") => Tier::Thorough,
        _ => Tier::Quick,
    };
    let mut replay: Option<String> = None;
    let mut i = 2;
    while i < args.len() {
        match args[i].as_str() {
            "--tier" => {
                i += 1;
                tier = match args.get(i).map(|s| s.as_str()) {
                    Some("quick") => Tier::Quick,
                    Some("thorough") => Tier::Thorough,
                    _ => usage(),
                };
            }
            "--replay" => {
                i += 1;
                replay = Some(args.get(i).cloned().unwrap_or_else(|| usage()));
            }
            _ => usage(),
        }
        i += 1;
    }
    let seed: u64 = std::env::var("VERIF_SEED").ok().and_then(|s| s.trim().parse::<i128>().ok()).map(|v| v as u64).unwrap_or(0);
    bridge::install_panic_hook();

    // the trusted base is validated on every run; a broken oracle means no verdict (exit 2)
    if let Err(e) = oracle::self_test().and_then(|_| gen::corpus_self_test()) {
        eprintln!("HARNESS ERROR: oracle self-test failed: {}", e);
        std::process::exit(2);
    }

    if let Some(path) = replay {
        let text = std::fs::read_to_string(&path).unwrap_or_else(|e| {
            eprintln!("cannot read replay file {}: {}", path, e);
            std::process::exit(2)
        });
        let v: Value = serde_json::from_str(&text).unwrap_or_else(|e| {
            eprintln!("replay file is not JSON: {}", e);
            std::process::exit(2)
        });
        let family = v.get("family").and_then(|x| x.as_str()).unwrap_or("").to_string();
        let case = v.get("case").cloned().unwrap_or(Value::Null);
        let r = bridge::catch(|| props::replay(&prop, &family, &case)).unwrap_or_else(|p| Err(format!("PANIC: {}", p)));
        match r {
            Ok(()) => {
                println!("replay {}: the property holds on this case", path);
                std::process::exit(0);
            }
            Err(m) => {
                println!("VIOLATION property={} replay={}", prop, path);
                println!("  {}", m);
                std::process::exit(1);
            }
        }
    }

    // watchdog: a check that does not finish is inconclusive (exit 2), never a violation
    let limit: u64 = std::env::var("VERIF_WATCHDOG_S").ok().and_then(|s| s.parse().ok()).unwrap_or(match tier {
        Tier::Quick => 1500,
        Tier::Thorough => 6 * 3600,
    });
    std::thread::spawn(move || {
        std::thread::sleep(std::time::Duration::from_secs(limit));
        runner::watchdog_fire(limit);
    });
    let mut ctx = Ctx::new(&prop, tier, seed);
    if !props::run(&mut ctx) {
        eprintln!("unknown property {}", prop);
        std::process::exit(2);
    }
    std::process::exit(runner::finish(ctx));
}
