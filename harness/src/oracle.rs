//! Independent chess rules oracle: the trusted base of the differential checks.
//!
//! Written from the FIDE Laws with a deliberately different algorithm from the engine's:
//! an 8x8 array (square = rank*8 + file, rank 0 = first rank, file 0 = a-file), attack tests that
//! go *from the attacking man* to the target square (the engine casts reverse rays from the king on
//! a 12x12 mailbox), legality by copy-make. Validated on every run against published perft totals
//! (see `self_test`).
#![allow(dead_code)]

#[derive(Copy, Clone, PartialEq, Eq, Debug, Hash, PartialOrd, Ord)]
pub enum Color {
    White,
    Black,
}
impl Color {
    pub fn opp(self) -> Color {
        if self == Color::White {
            Color::Black
        } else {
            Color::White
        }
    }
}
#[derive(Copy, Clone, PartialEq, Eq, Debug, Hash, PartialOrd, Ord)]
pub enum Kind {
    Pawn,
    Knight,
    Bishop,
    Rook,
    Queen,
    King,
}
pub const PROMO_KINDS: [Kind; 4] = [Kind::Queen, Kind::Rook, Kind::Bishop, Kind::Knight];
pub const ALL_KINDS: [Kind; 6] = [Kind::Pawn, Kind::Knight, Kind::Bishop, Kind::Rook, Kind::Queen, Kind::King];
pub type Man = (Color, Kind);

#[derive(Copy, Clone, PartialEq, Eq, Debug, Hash, PartialOrd, Ord)]
pub struct Move {
    pub from: u8,
    pub to: u8,
    pub promo: Option<Kind>,
}

#[derive(Clone, PartialEq, Eq, Debug, Hash)]
pub struct Pos {
    pub sq: [Option<Man>; 64],
    pub stm: Color,
    pub wk: bool,
    pub wq: bool,
    pub bk: bool,
    pub bq: bool,
    pub ep: Option<u8>,
}

pub fn file_of(s: u8) -> i8 {
    (s % 8) as i8
}
pub fn rank_of(s: u8) -> i8 {
    (s / 8) as i8
}
pub fn mk(f: i8, r: i8) -> Option<u8> {
    if (0..8).contains(&f) && (0..8).contains(&r) {
        Some((r * 8 + f) as u8)
    } else {
        None
    }
}
pub fn sq_name(s: u8) -> String {
    format!("{}{}", (b'a' + s % 8) as char, (b'1' + s / 8) as char)
}
pub fn parse_sq(s: &str) -> Option<u8> {
    let b = s.as_bytes();
    if b.len() != 2 || !(b'a'..=b'h').contains(&b[0]) || !(b'1'..=b'8').contains(&b[1]) {
        return None;
    }
    Some((b[1] - b'1') * 8 + (b[0] - b'a'))
}
pub fn kind_letter(k: Kind) -> char {
    match k {
        Kind::Pawn => 'p',
        Kind::Knight => 'n',
        Kind::Bishop => 'b',
        Kind::Rook => 'r',
        Kind::Queen => 'q',
        Kind::King => 'k',
    }
}
pub fn mv_name(m: &Move) -> String {
    match m.promo {
        Some(k) => format!("{}{}{}", sq_name(m.from), sq_name(m.to), kind_letter(k)),
        None => format!("{}{}", sq_name(m.from), sq_name(m.to)),
    }
}
pub fn parse_mv(s: &str) -> Option<Move> {
    if !s.is_ascii() || (s.len() != 4 && s.len() != 5) {
        return None;
    }
    let from = parse_sq(&s[0..2])?;
    let to = parse_sq(&s[2..4])?;
    let promo = if s.len() == 5 {
        Some(match s.as_bytes()[4] {
            b'q' => Kind::Queen,
            b'r' => Kind::Rook,
            b'b' => Kind::Bishop,
            b'n' => Kind::Knight,
            _ => return None,
        })
    } else {
        None
    };
    Some(Move { from, to, promo })
}

const KN: [(i8, i8); 8] = [(1, 2), (2, 1), (2, -1), (1, -2), (-1, -2), (-2, -1), (-2, 1), (-1, 2)];
const KG: [(i8, i8); 8] = [(1, 0), (1, 1), (0, 1), (-1, 1), (-1, 0), (-1, -1), (0, -1), (1, -1)];
const ROOK_D: [(i8, i8); 4] = [(1, 0), (-1, 0), (0, 1), (0, -1)];
const BISH_D: [(i8, i8); 4] = [(1, 1), (1, -1), (-1, 1), (-1, -1)];

#[derive(Copy, Clone, PartialEq, Eq, Debug)]
pub enum MoveClass {
    Quiet,
    Capture,
    DoubleStep,
    EnPassant,
    Castle,
    Promo,
    PromoCapture,
}

impl Pos {
    pub fn empty() -> Pos {
        Pos { sq: [None; 64], stm: Color::White, wk: false, wq: false, bk: false, bq: false, ep: None }
    }
    pub fn startpos() -> Pos {
        Pos::parse_fen("rnbqkbnr/pppppppp/8/8/8/8/PPPPPPPP/RNBQKBNR w KQkq - 0 1").unwrap()
    }
    pub fn king_sq(&self, c: Color) -> Option<u8> {
        (0..64u8).find(|&s| self.sq[s as usize] == Some((c, Kind::King)))
    }
    pub fn count(&self) -> usize {
        self.sq.iter().filter(|x| x.is_some()).count()
    }

    /// does the man standing on `s` attack `target` (movement rules only; the occupant of
    /// `target` is irrelevant)
    pub fn man_attacks(&self, s: u8, man: Man, target: u8) -> bool {
        if s == target {
            return false;
        }
        let (c, k) = man;
        let df = file_of(target) - file_of(s);
        let dr = rank_of(target) - rank_of(s);
        match k {
            Kind::Pawn => {
                let fwd = if c == Color::White { 1 } else { -1 };
                dr == fwd && df.abs() == 1
            }
            Kind::Knight => (df.abs() == 1 && dr.abs() == 2) || (df.abs() == 2 && dr.abs() == 1),
            Kind::King => df.abs() <= 1 && dr.abs() <= 1,
            Kind::Bishop | Kind::Rook | Kind::Queen => {
                let straight = df == 0 || dr == 0;
                let diagonal = df.abs() == dr.abs();
                let ok = match k {
                    Kind::Rook => straight,
                    Kind::Bishop => diagonal,
                    _ => straight || diagonal,
                };
                if !ok {
                    return false;
                }
                let (sf, sr) = (df.signum(), dr.signum());
                let (mut f, mut r) = (file_of(s) + sf, rank_of(s) + sr);
                // walk from the attacker towards the target; any man in between blocks
                while (f, r) != (file_of(target), rank_of(target)) {
                    if self.sq[(r * 8 + f) as usize].is_some() {
                        return false;
                    }
                    f += sf;
                    r += sr;
                }
                true
            }
        }
    }
    pub fn attacked(&self, target: u8, by: Color) -> bool {
        for s in 0..64u8 {
            if let Some(m) = self.sq[s as usize] {
                if m.0 == by && self.man_attacks(s, m, target) {
                    return true;
                }
            }
        }
        false
    }
    pub fn attackers(&self, target: u8, by: Color) -> Vec<u8> {
        (0..64u8)
            .filter(|&s| match self.sq[s as usize] {
                Some(m) => m.0 == by && self.man_attacks(s, m, target),
                None => false,
            })
            .collect()
    }
    pub fn in_check(&self, c: Color) -> bool {
        match self.king_sq(c) {
            Some(k) => self.attacked(k, c.opp()),
            None => false,
        }
    }

    fn targets_of(&self, s: u8, man: Man, out: &mut Vec<u8>) {
        let (_, k) = man;
        let f = file_of(s);
        let r = rank_of(s);
        match k {
            Kind::Knight => {
                for (df, dr) in KN {
                    if let Some(t) = mk(f + df, r + dr) {
                        out.push(t);
                    }
                }
            }
            Kind::King => {
                for (df, dr) in KG {
                    if let Some(t) = mk(f + df, r + dr) {
                        out.push(t);
                    }
                }
            }
            Kind::Pawn => {}
            _ => {
                let mut dirs: Vec<(i8, i8)> = vec![];
                if k == Kind::Rook || k == Kind::Queen {
                    dirs.extend(ROOK_D);
                }
                if k == Kind::Bishop || k == Kind::Queen {
                    dirs.extend(BISH_D);
                }
                for (df, dr) in dirs {
                    let (mut ff, mut rr) = (f + df, r + dr);
                    while let Some(t) = mk(ff, rr) {
                        out.push(t);
                        if self.sq[t as usize].is_some() {
                            break;
                        }
                        ff += df;
                        rr += dr;
                    }
                }
            }
        }
    }

    pub fn pseudo(&self) -> Vec<Move> {
        let us = self.stm;
        let mut out = Vec::with_capacity(48);
        let mut tg = Vec::with_capacity(28);
        for s in 0..64u8 {
            let Some((c, k)) = self.sq[s as usize] else { continue };
            if c != us {
                continue;
            }
            let f = file_of(s);
            let r = rank_of(s);
            if k == Kind::Pawn {
                let dr = if us == Color::White { 1 } else { -1 };
                let start = if us == Color::White { 1 } else { 6 };
                let last = if us == Color::White { 7 } else { 0 };
                let push = |to: u8, out: &mut Vec<Move>| {
                    if rank_of(to) == last {
                        for p in PROMO_KINDS {
                            out.push(Move { from: s, to, promo: Some(p) });
                        }
                    } else {
                        out.push(Move { from: s, to, promo: None });
                    }
                };
                if let Some(t) = mk(f, r + dr) {
                    if self.sq[t as usize].is_none() {
                        push(t, &mut out);
                        if r == start {
                            if let Some(t2) = mk(f, r + 2 * dr) {
                                if self.sq[t2 as usize].is_none() {
                                    out.push(Move { from: s, to: t2, promo: None });
                                }
                            }
                        }
                    }
                }
                for df in [-1, 1] {
                    if let Some(t) = mk(f + df, r + dr) {
                        match self.sq[t as usize] {
                            Some((oc, _)) if oc != us => push(t, &mut out),
                            None if self.ep == Some(t) => {
                                // en passant: only from the fifth rank, and the pawn that
                                // double-stepped must stand beside the capturer
                                let fifth = if us == Color::White { 4 } else { 3 };
                                let cap = mk(f + df, r).unwrap();
                                if r == fifth && self.sq[cap as usize] == Some((us.opp(), Kind::Pawn)) {
                                    out.push(Move { from: s, to: t, promo: None });
                                }
                            }
                            _ => {}
                        }
                    }
                }
            } else {
                tg.clear();
                self.targets_of(s, (c, k), &mut tg);
                for &t in &tg {
                    match self.sq[t as usize] {
                        Some((oc, _)) if oc == us => {}
                        _ => out.push(Move { from: s, to: t, promo: None }),
                    }
                }
            }
        }
        // castling (FIDE 3.8.2): right held, king and rook at home, nothing between them, king not in
        // check, and neither the square it crosses nor the one it lands on attacked by ANY enemy man
        let (home, ks, qs) = if us == Color::White { (4u8, self.wk, self.wq) } else { (60u8, self.bk, self.bq) };
        if (ks || qs) && self.sq[home as usize] == Some((us, Kind::King)) && !self.attacked(home, us.opp()) {
            if ks
                && self.sq[(home + 3) as usize] == Some((us, Kind::Rook))
                && self.sq[(home + 1) as usize].is_none()
                && self.sq[(home + 2) as usize].is_none()
                && !self.attacked(home + 1, us.opp())
                && !self.attacked(home + 2, us.opp())
            {
                out.push(Move { from: home, to: home + 2, promo: None });
            }
            if qs
                && self.sq[(home - 4) as usize] == Some((us, Kind::Rook))
                && self.sq[(home - 1) as usize].is_none()
                && self.sq[(home - 2) as usize].is_none()
                && self.sq[(home - 3) as usize].is_none()
                && !self.attacked(home - 1, us.opp())
                && !self.attacked(home - 2, us.opp())
            {
                out.push(Move { from: home, to: home - 2, promo: None });
            }
        }
        out
    }

    pub fn classify(&self, m: &Move) -> MoveClass {
        let man = self.sq[m.from as usize].map(|x| x.1);
        let occupied = self.sq[m.to as usize].is_some();
        if man == Some(Kind::King) && (file_of(m.from) - file_of(m.to)).abs() == 2 {
            return MoveClass::Castle;
        }
        if man == Some(Kind::Pawn) {
            if file_of(m.from) != file_of(m.to) && !occupied {
                return MoveClass::EnPassant;
            }
            if m.promo.is_some() {
                return if occupied { MoveClass::PromoCapture } else { MoveClass::Promo };
            }
            if (rank_of(m.from) - rank_of(m.to)).abs() == 2 {
                return MoveClass::DoubleStep;
            }
        }
        if occupied {
            MoveClass::Capture
        } else {
            MoveClass::Quiet
        }
    }
    pub fn is_capture(&self, m: &Move) -> bool {
        matches!(self.classify(m), MoveClass::Capture | MoveClass::EnPassant | MoveClass::PromoCapture)
    }

    /// FIDE move execution. `m` must be a pseudo-legal move of `self`.
    pub fn apply(&self, m: &Move) -> Pos {
        let mut p = self.clone();
        let us = self.stm;
        let man = self.sq[m.from as usize].expect("oracle.apply: no man on the from-square");
        let class = self.classify(m);
        p.sq[m.from as usize] = None;
        if class == MoveClass::EnPassant {
            let cap = mk(file_of(m.to), rank_of(m.from)).unwrap();
            p.sq[cap as usize] = None;
        }
        p.sq[m.to as usize] = Some(match m.promo {
            Some(k) => (us, k),
            None => man,
        });
        if class == MoveClass::Castle {
            let r = rank_of(m.from);
            let (a, b) = if file_of(m.to) == 6 { (mk(7, r).unwrap(), mk(5, r).unwrap()) } else { (mk(0, r).unwrap(), mk(3, r).unwrap()) };
            p.sq[b as usize] = p.sq[a as usize];
            p.sq[a as usize] = None;
        }
        // castling rights: lost when the king moves, a rook leaves its home square, or something
        // lands on a rook's home square
        for s in [m.from, m.to] {
            match s {
                4 => {
                    p.wk = false;
                    p.wq = false;
                }
                60 => {
                    p.bk = false;
                    p.bq = false;
                }
                0 => p.wq = false,
                7 => p.wk = false,
                56 => p.bq = false,
                63 => p.bk = false,
                _ => {}
            }
        }
        // en passant target: the square passed over, after every double step (FEN convention)
        p.ep = if class == MoveClass::DoubleStep { mk(file_of(m.from), (rank_of(m.from) + rank_of(m.to)) / 2) } else { None };
        p.stm = us.opp();
        p
    }
    pub fn legal_moves(&self) -> Vec<Move> {
        let us = self.stm;
        self.pseudo().into_iter().filter(|m| !self.apply(m).in_check(us)).collect()
    }
    pub fn has_legal_move(&self) -> bool {
        let us = self.stm;
        self.pseudo().into_iter().any(|m| !self.apply(&m).in_check(us))
    }
    pub fn is_checkmate(&self) -> bool {
        self.in_check(self.stm) && !self.has_legal_move()
    }
    pub fn is_stalemate(&self) -> bool {
        !self.in_check(self.stm) && !self.has_legal_move()
    }
    pub fn perft(&self, d: u32) -> u64 {
        if d == 0 {
            return 1;
        }
        let ms = self.legal_moves();
        if d == 1 {
            return ms.len() as u64;
        }
        ms.iter().map(|m| self.apply(m).perft(d - 1)).sum()
    }

    pub fn placement_fen(&self) -> String {
        let mut s = String::new();
        for r in (0..8).rev() {
            let mut e = 0;
            for f in 0..8 {
                match self.sq[(r * 8 + f) as usize] {
                    None => e += 1,
                    Some((c, k)) => {
                        if e > 0 {
                            s += &e.to_string();
                            e = 0;
                        }
                        let ch = kind_letter(k);
                        s.push(if c == Color::White { ch.to_ascii_uppercase() } else { ch });
                    }
                }
            }
            if e > 0 {
                s += &e.to_string();
            }
            if r > 0 {
                s.push('/');
            }
        }
        s
    }
    pub fn fen_with(&self, half: u32, full: u32) -> String {
        let mut s = self.placement_fen();
        s += if self.stm == Color::White { " w " } else { " b " };
        let mut c = String::new();
        if self.wk {
            c.push('K');
        }
        if self.wq {
            c.push('Q');
        }
        if self.bk {
            c.push('k');
        }
        if self.bq {
            c.push('q');
        }
        if c.is_empty() {
            c.push('-');
        }
        s += &c;
        s.push(' ');
        match self.ep {
            Some(e) => s += &sq_name(e),
            None => s.push('-'),
        }
        s += &format!(" {} {}", half, full);
        s
    }
    pub fn fen(&self) -> String {
        self.fen_with(0, 1)
    }

    /// Strict, independent FEN reader: accepts exactly the six-field form with single spaces,
    /// rows that add up to eight, castling field '-' or a non-empty duplicate-free subset of KQkq,
    /// ep field '-' or a square, decimal counters. Returns the position and the two counters.
    pub fn parse_fen_full(fen: &str) -> Option<(Pos, u64, u64)> {
        let parts: Vec<&str> = fen.split(' ').collect();
        if parts.len() != 6 {
            return None;
        }
        let mut p = Pos::empty();
        let rows: Vec<&str> = parts[0].split('/').collect();
        if rows.len() != 8 {
            return None;
        }
        for (i, row) in rows.iter().enumerate() {
            let r = 7 - i as i8;
            let mut f = 0i8;
            for ch in row.chars() {
                if let Some(d) = ch.to_digit(10) {
                    if !ch.is_ascii() || d == 0 || d > 8 {
                        return None;
                    }
                    f += d as i8;
                    if f > 8 {
                        return None;
                    }
                } else {
                    let c = if ch.is_ascii_uppercase() { Color::White } else { Color::Black };
                    let k = match ch {
                        'p' | 'P' => Kind::Pawn,
                        'n' | 'N' => Kind::Knight,
                        'b' | 'B' => Kind::Bishop,
                        'r' | 'R' => Kind::Rook,
                        'q' | 'Q' => Kind::Queen,
                        'k' | 'K' => Kind::King,
                        _ => return None,
                    };
                    p.sq[mk(f, r)? as usize] = Some((c, k));
                    f += 1;
                }
            }
            if f != 8 {
                return None;
            }
        }
        p.stm = match parts[1] {
            "w" => Color::White,
            "b" => Color::Black,
            _ => return None,
        };
        if parts[2] != "-" {
            if parts[2].is_empty() {
                return None;
            }
            for ch in parts[2].chars() {
                let slot = match ch {
                    'K' => &mut p.wk,
                    'Q' => &mut p.wq,
                    'k' => &mut p.bk,
                    'q' => &mut p.bq,
                    _ => return None,
                };
                if *slot {
                    return None;
                }
                *slot = true;
            }
        }
        p.ep = if parts[3] == "-" { None } else { Some(parse_sq(parts[3])?) };
        let num = |s: &str| -> Option<u64> {
            if s.is_empty() || !s.bytes().all(|b| b.is_ascii_digit()) || s.len() > 18 {
                return None;
            }
            s.parse().ok()
        };
        let half = num(parts[4])?;
        let full = num(parts[5])?;
        Some((p, half, full))
    }
    pub fn parse_fen(fen: &str) -> Option<Pos> {
        Pos::parse_fen_full(fen).map(|x| x.0)
    }

    /// The property's definition of a legal position (C01): exactly one king per side, the side not
    /// to move not in check, no pawns on the first or last rank, castling rights only with king and
    /// rook on their home squares, en-passant target only directly behind a pawn that could just
    /// have double-stepped (target and origin squares empty, enemy pawn on its fourth rank).
    pub fn is_legal_position(&self) -> bool {
        let wk = (0..64).filter(|&s| self.sq[s] == Some((Color::White, Kind::King))).count();
        let bk = (0..64).filter(|&s| self.sq[s] == Some((Color::Black, Kind::King))).count();
        if wk != 1 || bk != 1 {
            return false;
        }
        if self.in_check(self.stm.opp()) {
            return false;
        }
        for s in (0..8).chain(56..64) {
            if let Some((_, Kind::Pawn)) = self.sq[s] {
                return false;
            }
        }
        if (self.wk || self.wq) && self.sq[4] != Some((Color::White, Kind::King)) {
            return false;
        }
        if (self.bk || self.bq) && self.sq[60] != Some((Color::Black, Kind::King)) {
            return false;
        }
        if self.wk && self.sq[7] != Some((Color::White, Kind::Rook)) {
            return false;
        }
        if self.wq && self.sq[0] != Some((Color::White, Kind::Rook)) {
            return false;
        }
        if self.bk && self.sq[63] != Some((Color::Black, Kind::Rook)) {
            return false;
        }
        if self.bq && self.sq[56] != Some((Color::Black, Kind::Rook)) {
            return false;
        }
        if let Some(e) = self.ep {
            // stm == White: black has just played e.g. d7-d5; target d6 (rank index 5), pawn on rank index 4
            let (er, pr, or) = if self.stm == Color::White { (5, 4, 6) } else { (2, 3, 1) };
            if rank_of(e) != er {
                return false;
            }
            if self.sq[e as usize].is_some() {
                return false;
            }
            if self.sq[mk(file_of(e), pr).unwrap() as usize] != Some((self.stm.opp(), Kind::Pawn)) {
                return false;
            }
            if self.sq[mk(file_of(e), or).unwrap() as usize].is_some() {
                return false;
            }
            // the double step must have been playable: before it, the side now to move must not
            // have been giving... (the mover may have been in check and blocked it - allowed); but the
            // side to move now must not have been in check by something the pawn's move could not
            // have caused is too deep for this predicate; what IS required: with the pawn put back on
            // its origin square the side now to move was not in check by a non-pawn-discovered attack
            // -> we require only that the position before the double step had the opponent (now to
            // move) not in check, since it was the pawn mover's turn.
            let mut before = self.clone();
            let ps = mk(file_of(e), pr).unwrap() as usize;
            let os = mk(file_of(e), or).unwrap() as usize;
            before.sq[os] = before.sq[ps];
            before.sq[ps] = None;
            if before.in_check(self.stm) {
                return false;
            }
        }
        true
    }

    pub fn mirror(&self) -> Pos {
        // colour-mirrored twin: ranks flipped, colours and side to move swapped
        let mut p = Pos::empty();
        for s in 0..64u8 {
            if let Some((c, k)) = self.sq[s as usize] {
                let t = mk(file_of(s), 7 - rank_of(s)).unwrap();
                p.sq[t as usize] = Some((c.opp(), k));
            }
        }
        p.stm = self.stm.opp();
        p.wk = self.bk;
        p.wq = self.bq;
        p.bk = self.wk;
        p.bq = self.wq;
        p.ep = self.ep.map(|e| mk(file_of(e), 7 - rank_of(e)).unwrap());
        p
    }
}

/// Bounded AND/OR mate solver. `budget` is decremented per node; None = budget exhausted (unknown).
pub struct Solver {
    pub budget: i64,
    /// optional memo of decided (position, n) queries; None = plain AND/OR search
    pub memo: Option<std::collections::HashMap<(Pos, u32), bool>>,
}
impl Solver {
    pub fn new(budget: i64) -> Solver {
        Solver { budget, memo: None }
    }
    /// with a memo table: repeated and transposing queries are answered once (small endgames)
    pub fn with_memo(budget: i64) -> Solver {
        Solver { budget, memo: Some(std::collections::HashMap::new()) }
    }
    /// side to move can force checkmate in at most `n` of its own moves
    pub fn mate_in(&mut self, p: &Pos, n: u32) -> Option<bool> {
        if n == 0 {
            return Some(false);
        }
        if let Some(m) = &self.memo {
            if let Some(&v) = m.get(&(p.clone(), n)) {
                return Some(v);
            }
        }
        let r = self.mate_in_uncached(p, n);
        if let (Some(v), Some(m)) = (r, self.memo.as_mut()) {
            m.insert((p.clone(), n), v);
        }
        r
    }
    fn mate_in_uncached(&mut self, p: &Pos, n: u32) -> Option<bool> {
        self.budget -= 1;
        if self.budget < 0 {
            return None;
        }
        let moves = p.legal_moves();
        // try checking moves first: cheaper refutation of "no mate"
        let mut unknown = false;
        for m in &moves {
            let q = p.apply(m);
            let replies = q.legal_moves();
            if replies.is_empty() {
                if q.in_check(q.stm) {
                    return Some(true);
                }
                continue; // stalemate: not a mate
            }
            if n == 1 {
                continue;
            }
            let mut all = true;
            for r in &replies {
                match self.mate_in(&q.apply(r), n - 1) {
                    Some(true) => {}
                    Some(false) => {
                        all = false;
                        break;
                    }
                    None => {
                        all = false;
                        unknown = true;
                        break;
                    }
                }
            }
            if all {
                return Some(true);
            }
        }
        if unknown {
            None
        } else {
            Some(false)
        }
    }
    /// side to move (which has at least one legal move) is checkmated within `n` opponent moves
    /// whatever it plays
    pub fn mated_in(&mut self, p: &Pos, n: u32) -> Option<bool> {
        let moves = p.legal_moves();
        if moves.is_empty() {
            return Some(p.in_check(p.stm));
        }
        let mut unknown = false;
        for m in &moves {
            match self.mate_in(&p.apply(m), n) {
                Some(true) => {}
                Some(false) => return Some(false),
                None => unknown = true,
            }
        }
        if unknown {
            None
        } else {
            Some(true)
        }
    }
}

pub const PERFT_SUITE: [(&str, u32, u64); 6] = [
    ("rnbqkbnr/pppppppp/8/8/8/8/PPPPPPPP/RNBQKBNR w KQkq - 0 1", 4, 197281),
    ("r3k2r/p1ppqpb1/bn2pnp1/3PN3/1p2P3/2N2Q1p/PPPBBPPP/R3K2R w KQkq - 0 1", 3, 97862),
    ("8/2p5/3p4/KP5r/1R3p1k/8/4P1P1/8 w - - 0 1", 4, 43238),
    ("r3k2r/Pppp1ppp/1b3nbN/nP6/BBP1P3/q4N2/Pp1P2PP/R2Q1RK1 w kq - 0 1", 3, 9467),
    ("rnbq1k1r/pp1Pbppp/2p5/8/2B5/8/PPP1NnPP/RNBQK2R w KQ - 1 8", 3, 62379),
    ("r4rk1/1pp1qppp/p1np1n2/2b1p1B1/2B1P1b1/P1NP1N2/1PP1QPPP/R4RK1 w - - 0 10", 3, 89890),
];

pub const RULE_CASES: [(&str, usize, bool, bool); 22] = [
    ("8/8/8/8/8/8/6k1/4K2R w K - 0 1", 12, false, false),
    ("8/8/8/8/8/8/1k6/R3K3 w Q - 0 1", 15, false, false),
    ("4k3/8/8/8/8/8/8/R3K2R w KQ - 0 1", 26, false, false),
    ("r3k2r/8/8/8/8/8/8/4K3 b kq - 0 1", 26, false, false),
    ("4k3/8/8/8/8/8/8/RN2K2R w KQ - 0 1", 25, false, false),
    ("1r2k3/8/8/8/8/8/8/R3K3 w Q - 0 1", 16, false, false),
    ("3rk3/8/8/8/8/8/8/R3K3 w Q - 0 1", 13, false, false),
    ("4k3/8/8/8/8/8/4r3/R3K2R w KQ - 0 1", 3, false, false),
    ("8/8/8/KPp4r/8/8/8/7k w - c6 0 1", 4, false, false),
    ("8/8/8/8/k2Pp2Q/8/8/4K3 b - d3 0 1", 6, false, false),
    ("4k3/8/8/3pP3/8/8/8/4K3 w - d6 0 1", 7, false, false),
    ("4k3/8/8/8/3pP3/8/8/4K3 b - e3 0 1", 7, false, false),
    ("7k/5Q2/6K1/8/8/8/8/8 b - - 0 1", 0, false, true),
    ("7k/6Q1/6K1/8/8/8/8/8 b - - 0 1", 0, true, false),
    ("R5k1/5ppp/8/8/8/8/8/4K3 b - - 0 1", 0, true, false),
    ("4k3/P7/8/8/8/8/8/4K3 w - - 0 1", 9, false, false),
    ("1n2k3/P7/8/8/8/8/8/4K3 w - - 0 1", 13, false, false),
    ("4k3/8/8/8/8/8/4P3/4K3 w - - 0 1", 6, false, false),
    ("4k3/8/8/8/8/4n3/4P3/4K3 w - - 0 1", 2, false, false),
    ("4k3/8/8/8/4n3/8/4P3/4K3 w - - 0 1", 3, false, false),
    ("k7/8/8/8/8/8/8/K6R w - - 0 1", 16, false, false),
    ("4k3/8/8/8/8/8/8/4K3 w - - 0 1", 5, false, false),
];

/// Oracle self-test against external ground truth: published perft totals
/// (chessprogramming.org/Perft_Results) and hand-verified rule cases. Err = the oracle is broken
/// and no verdict of the harness can be trusted (exit 2).
pub fn self_test() -> Result<(), String> {
    for (f, d, n) in PERFT_SUITE {
        let got = Pos::parse_fen(f).ok_or("oracle cannot parse its own suite")?.perft(d);
        if got != n {
            return Err(format!("oracle perft({}) of {} = {} but the published total is {}", d, f, got, n));
        }
    }
    // (fen, expected number of legal moves, checkmate?, stalemate?) - every count verified by hand
    let cases: [(&str, usize, bool, bool); 22] = RULE_CASES;
    for (i, (f, n, mate, stale)) in cases.iter().enumerate() {
        let p = Pos::parse_fen(f).ok_or_else(|| format!("oracle cannot parse case {}", f))?;
        let got = p.legal_moves().len();
        if got != *n {
            return Err(format!("oracle rule case {} ({}): {} legal moves, expected {}", i, f, got, n));
        }
        if p.is_checkmate() != *mate || p.is_stalemate() != *stale {
            return Err(format!("oracle rule case {} ({}): mate/stalemate classification wrong", i, f));
        }
    }
    // mate solver sanity
    let m1 = Pos::parse_fen("6k1/5ppp/8/8/8/8/8/R3K3 w - - 0 1").unwrap();
    if Solver::new(100_000).mate_in(&m1, 1) != Some(true) {
        return Err("solver misses a back-rank mate in one".into());
    }
    let m2 = Pos::parse_fen("7k/8/5K2/8/8/8/8/6R1 w - - 0 1").unwrap(); // Kf7 then Rh1#
    if Solver::new(1_000_000).mate_in(&m2, 1) != Some(false) || Solver::new(1_000_000).mate_in(&m2, 2) != Some(true) {
        return Err("solver wrong on a mate in two".into());
    }
    let st = Pos::parse_fen("7k/5Q2/6K1/8/8/8/8/8 b - - 0 1").unwrap();
    if Solver::new(1000).mated_in(&st, 1) != Some(false) {
        return Err("solver treats stalemate as mate".into());
    }
    // mirror is an involution and preserves move counts
    for (f, _, _) in PERFT_SUITE {
        let p = Pos::parse_fen(f).unwrap();
        if p.mirror().mirror() != p || p.mirror().legal_moves().len() != p.legal_moves().len() {
            return Err("mirror is not a symmetry of the oracle".into());
        }
    }
    Ok(())
}
