//! Black-box checks against the real release binary (hooks off): C03, C08, C16, C17, the timed
//! part of C09 and the black-box parts of C18.
use crate::board::PieceColor;
use crate::bridge::*;
use crate::gen::*;
use crate::oracle::*;
use crate::props::search::{c18_lines, c18_nontrivial, find_cycle, parse_info, Info, Score};
use crate::runner::*;
use crate::uci::verif_parse_go_command;
use proptest::prelude::*;
use serde_json::{json, Value};
use std::io::{BufRead, BufReader, Write};
use std::process::{Child, ChildStdin, Command, Stdio};
use std::sync::atomic::{AtomicU64, Ordering};
use std::sync::mpsc::{self, Receiver};
use std::time::{Duration, Instant};

/// tolerance of the timing oracles: answer no later than plan + DELTA, no earlier than plan - EARLY
pub const DELTA_MS: u64 = 500;
pub const EARLY_MS: u64 = 3;
const HARD_WAIT_MS: u64 = 10_000;

static COUNTER: AtomicU64 = AtomicU64::new(0);
thread_local! {
    /// when set, engines started on this thread are pinned to ONE core (`taskset -c n`): the search
    /// thread and the polling I/O thread then time-slice on a single CPU, a very different family of
    /// interleavings from the free-running one
    pub static PIN_ONE_CORE: std::cell::Cell<bool> = std::cell::Cell::new(false);
}
fn taskset_available() -> bool {
    static A: std::sync::OnceLock<bool> = std::sync::OnceLock::new();
    *A.get_or_init(|| Command::new("taskset").arg("-c").arg("0").arg("true").output().map(|o| o.status.success()).unwrap_or(false))
}

pub struct Engine {
    child: Child,
    stdin: Option<ChildStdin>,
    rx: Receiver<Option<(Instant, String)>>,
    err_rx: Receiver<String>,
    dir: String,
    pub transcript: Vec<String>,
    stderr: String,
    /// front-end options the process was started with (empty for most engines)
    pub started_with: String,
}
impl Engine {
    pub fn spawn() -> Result<Engine, String> {
        let bin = std::env::var("WALLEYE_BIN").map_err(|_| "HARNESS: WALLEYE_BIN not set (run through ./check)".to_string())?;
        let dir = format!("{}/run/e_{}_{}", std::env::var("VERIF_CACHE").unwrap_or_else(|_| "/verif/.cache".into()), std::process::id(), COUNTER.fetch_add(1, Ordering::Relaxed));
        std::fs::create_dir_all(&dir).map_err(|e| format!("HARNESS: cannot create {}: {}", dir, e))?;
        let n = COUNTER.load(Ordering::Relaxed);
        let ncpu = std::thread::available_parallelism().map(|x| x.get()).unwrap_or(1) as u64;
        let mut cmd = if PIN_ONE_CORE.with(|p| p.get()) && taskset_available() {
            let mut c = Command::new("taskset");
            c.arg("-c").arg((n % ncpu).to_string()).arg(&bin);
            c
        } else {
            Command::new(&bin)
        };
        // command-line options of the front end given to a process that then speaks UCI: they belong
        // to the bench / self-play modes and must not leak into the session (every eighth engine)
        let mut started_with = String::new();
        if n % 8 == 5 {
            let extra: [&[&str]; 4] = [&["--fen=r3k2r/8/8/8/8/8/8/R3K2R b KQkq - 3 9"], &["--fen=8/8/8/4k3/8/8/4P3/4K3 w - - 0 1", "-d", "3"], &["-S"], &["-d", "2", "--fen=rnbqkbnr/pppp1ppp/8/4p3/4P3/8/PPPP1PPP/RNBQKBNR w KQkq e6 0 2"]];
            cmd.args(extra[(n as usize / 8) % 4]);
            started_with = format!("engine started as `walleye {}`; ", extra[(n as usize / 8) % 4].join(" "));
        }
        let mut child = cmd.current_dir(&dir).stdin(Stdio::piped()).stdout(Stdio::piped()).stderr(Stdio::piped()).spawn().map_err(|e| format!("HARNESS: cannot start {}: {}", bin, e))?;
        let stdin = child.stdin.take();
        let out = child.stdout.take().unwrap();
        let err = child.stderr.take().unwrap();
        let (tx, rx) = mpsc::channel();
        std::thread::spawn(move || {
            let r = BufReader::new(out);
            for l in r.lines() {
                match l {
                    Ok(l) => {
                        if tx.send(Some((Instant::now(), l))).is_err() {
                            return;
                        }
                    }
                    Err(_) => break,
                }
            }
            let _ = tx.send(None);
        });
        let (etx, err_rx) = mpsc::channel();
        std::thread::spawn(move || {
            let r = BufReader::new(err);
            for l in r.lines().map_while(|l| l.ok()) {
                if etx.send(l).is_err() {
                    return;
                }
            }
        });
        Ok(Engine { child, stdin, rx, err_rx, dir, transcript: vec![], stderr: String::new(), started_with })
    }
    pub fn send(&mut self, line: &str) -> Instant {
        self.transcript.push(format!("> {}", line));
        let t = Instant::now();
        if let Some(s) = self.stdin.as_mut() {
            let _ = s.write_all(line.as_bytes());
            let _ = s.write_all(b"\n");
            let _ = s.flush();
        }
        t
    }
    pub fn send_raw(&mut self, bytes: &[u8]) {
        self.transcript.push(format!("> (raw) {:?}", String::from_utf8_lossy(bytes)));
        if let Some(s) = self.stdin.as_mut() {
            let _ = s.write_all(bytes);
            let _ = s.flush();
        }
    }
    pub fn close_stdin(&mut self) {
        self.transcript.push("> (stdin closed)".into());
        self.stdin = None;
    }
    /// next stdout line, or None on timeout / end of output
    pub fn next_line(&mut self, timeout: Duration) -> Option<(Instant, String)> {
        match self.rx.recv_timeout(timeout) {
            Ok(Some((t, l))) => {
                self.transcript.push(format!("< {}", l));
                Some((t, l))
            }
            _ => None,
        }
    }
    /// read until a line satisfies `stop` (inclusive); returns everything read, and whether stopped
    pub fn read_until(&mut self, stop: impl Fn(&str) -> bool, timeout: Duration) -> (Vec<(Instant, String)>, bool) {
        let deadline = Instant::now() + timeout;
        let mut out = vec![];
        loop {
            let now = Instant::now();
            if now >= deadline {
                return (out, false);
            }
            match self.next_line(deadline - now) {
                Some((t, l)) => {
                    let done = stop(&l);
                    out.push((t, l));
                    if done {
                        return (out, true);
                    }
                }
                None => return (out, false),
            }
        }
    }
    /// discard whatever is already waiting on stdout (late lines of an earlier search: the search
    /// thread is not joined when the I/O thread answers, so an `info` line can trail the `bestmove`)
    pub fn drain(&mut self) -> usize {
        let mut n = 0;
        while let Ok(Some((_, l))) = self.rx.try_recv() {
            self.transcript.push(format!("< (drained) {}", l));
            n += 1;
        }
        n
    }
    pub fn settle(&mut self, ms: u64) -> usize {
        std::thread::sleep(Duration::from_millis(ms));
        self.drain()
    }
    pub fn handshake(&mut self) -> Result<(), String> {
        self.send("uci");
        let (_, ok) = self.read_until(|l| l == "uciok", Duration::from_secs(5));
        if ok {
            Ok(())
        } else {
            Err(format!("no `uciok` after `uci` ({})", self.context()))
        }
    }
    pub fn isready(&mut self, timeout: Duration) -> Result<Vec<String>, String> {
        self.send("isready");
        let (lines, ok) = self.read_until(|l| l == "readyok", timeout);
        if ok {
            Ok(lines.into_iter().map(|x| x.1).filter(|l| l != "readyok").collect())
        } else {
            Err(format!("`isready` not answered with `readyok` within {:?} ({})", timeout, self.context()))
        }
    }
    pub fn collect_stderr(&mut self) -> &str {
        while let Ok(l) = self.err_rx.try_recv() {
            self.stderr.push_str(&l);
            self.stderr.push('\n');
        }
        &self.stderr
    }
    pub fn panicked(&mut self) -> Option<String> {
        let e = self.collect_stderr();
        e.lines().find(|l| l.contains("panicked")).map(|l| l.to_string())
    }
    pub fn wait_exit(&mut self, timeout: Duration) -> Option<std::process::ExitStatus> {
        let deadline = Instant::now() + timeout;
        loop {
            if let Ok(Some(s)) = self.child.try_wait() {
                return Some(s);
            }
            if Instant::now() >= deadline {
                return None;
            }
            std::thread::sleep(Duration::from_millis(2));
        }
    }
    pub fn alive(&mut self) -> bool {
        matches!(self.child.try_wait(), Ok(None))
    }
    pub fn context(&mut self) -> String {
        let alive = self.alive();
        let pan = self.panicked();
        let n = self.transcript.len();
        format!("{}process {}{}; last lines: {:?}", self.started_with, if alive { "alive" } else { "ended" }, pan.map(|p| format!(", stderr: {}", p)).unwrap_or_default(), &self.transcript[n.saturating_sub(6)..])
    }
}
impl Drop for Engine {
    fn drop(&mut self) {
        let _ = self.child.kill();
        let _ = self.child.wait();
        let _ = std::fs::remove_dir_all(&self.dir);
    }
}

// ---------------------------------------------------------------------------------------------
// go commands

#[derive(Debug, Clone)]
pub struct GoSpec {
    /// 0 bare go, 1 ignored-only tokens, 2 zero/negative clocks, 3 tiny slice, 4 small slice
    pub kind: u8,
    pub slice_ms: u16,
    pub mtg: Option<u8>,
    pub inc: Option<u16>,
    /// the OTHER side's clock: kept below 12 s so that an engine that wrongly uses it still answers
    /// within a third of a second per go (the run stays bounded; the pure part judges the policy)
    pub other: u32,
    pub order: u8,
    pub noise: u8,
}
pub fn go_spec_strategy(max_slice: u16) -> impl Strategy<Value = GoSpec> {
    (prop_oneof![2 => Just(0u8), 2 => Just(1u8), 2 => Just(2u8), 4 => Just(3u8), 4 => Just(4u8)], 1u16..=max_slice.max(2), prop_oneof![2 => Just(None), 3 => (1u8..=40).prop_map(Some)], prop_oneof![3 => Just(None), 1 => (0u16..200).prop_map(Some)], 0u32..12_000, any::<u8>(), any::<u8>())
        .prop_map(|(kind, slice_ms, mtg, inc, other, order, noise)| GoSpec { kind, slice_ms, mtg, inc, other, order, noise })
}
const GO_NOISE: [&str; 12] = ["infinite", "ponder", "depth 4", "movetime 50", "nodes 1000", "searchmoves e2e4", "movetime -1", "movetime 0", "depth -3", "nodes 0", "movetime 99999999999999999999999", "mate 2"];
/// the text of the go command for the given side to move
pub fn go_text(g: &GoSpec, white_to_move: bool) -> String {
    let mut fields: Vec<(String, String)> = vec![];
    let (me, opp, minc, oinc) = if white_to_move { ("wtime", "btime", "winc", "binc") } else { ("btime", "wtime", "binc", "winc") };
    match g.kind {
        0 => return "go".into(),
        1 => return format!("go {}", GO_NOISE[g.noise as usize % GO_NOISE.len()]),
        2 => {
            let v: i64 = [0i64, -1, -500, 100, 50, 99][g.order as usize % 6];
            fields.push((me.into(), v.to_string()));
            fields.push((opp.into(), g.other.to_string()));
        }
        _ => {
            let slice = if g.kind == 3 { (g.slice_ms % 5 + 1) as f64 } else { g.slice_ms as f64 };
            let mtg = g.mtg.map(|m| m as f64).unwrap_or(30.0);
            let clock = (100.0 + slice * mtg / 0.8).ceil() as i64;
            fields.push((me.into(), clock.to_string()));
            fields.push((opp.into(), g.other.to_string()));
            if let Some(m) = g.mtg {
                fields.push(("movestogo".into(), m.to_string()));
            }
            if let Some(i) = g.inc {
                fields.push((minc.into(), i.to_string()));
                fields.push((oinc.into(), (i as u32 * 7 % 5000).to_string()));
            }
        }
    }
    // any token order
    let n = fields.len();
    if n > 1 {
        fields.rotate_left(g.order as usize % n);
        if g.order & 0x40 != 0 {
            fields.reverse();
        }
    }
    let mut toks = vec!["go".to_string()];
    for (i, (k, v)) in fields.iter().enumerate() {
        if g.noise & 0x80 != 0 && i == (g.noise as usize >> 3) % (n.max(1)) {
            toks.push(GO_NOISE[g.noise as usize % GO_NOISE.len()].to_string());
        }
        toks.push(k.clone());
        toks.push(v.clone());
    }
    toks.join(" ")
}
/// the engine's own plan (ms) for this go text and side to move
pub fn plan_ms(go: &str, white_to_move: bool) -> u64 {
    // The command is read by the harness's OWN straightforward reader (keys followed by a value,
    // everything else ignored), not by the engine's parser: a parser defect must show up as a
    // difference between measured time and plan. The slice policy itself is the engine's
    // calculate_time_slice, which C09's pure part judges separately.
    let toks: Vec<&str> = go.split_whitespace().collect();
    let mut gt = crate::time_control::GameTime { wtime: 0, btime: 0, winc: 0, binc: 0, movestogo: None };
    let mut i = 1;
    while i < toks.len() {
        let val = toks.get(i + 1).and_then(|v| v.parse::<i128>().ok());
        match (toks[i], val) {
            ("wtime", Some(v)) => gt.wtime = v,
            ("btime", Some(v)) => gt.btime = v,
            ("winc", Some(v)) => gt.winc = v,
            ("binc", Some(v)) => gt.binc = v,
            ("movestogo", Some(v)) => gt.movestogo = Some(v as u32),
            _ => {
                i += 1;
                continue;
            }
        }
        i += 2;
    }
    gt.calculate_time_slice(if white_to_move { PieceColor::White } else { PieceColor::Black }).min(1_000_000) as u64
}

pub struct GoAnswer {
    pub bestmove: Option<String>,
    pub infos: Vec<String>,
    pub delay_ms: f64,
    pub extra_bestmoves: usize,
}
/// send `go`, wait for `bestmove`, then fence with isready and count stray bestmove lines
thread_local! {
    /// a line to send right after the next `go` (while the engine is thinking); cleared by do_go
    pub static AFTER_GO: std::cell::RefCell<Option<String>> = std::cell::RefCell::new(None);
}
pub fn do_go(e: &mut Engine, go: &str, plan: u64) -> Result<GoAnswer, String> {
    e.drain();
    let t0 = e.send(go);
    if let Some(l) = AFTER_GO.with(|a| a.borrow_mut().take()) {
        e.send(&l);
    }
    let (lines, ok) = e.read_until(|l| l.starts_with("bestmove"), Duration::from_millis(plan + HARD_WAIT_MS));
    if !ok {
        return Err(format!("`{}` was not answered with a bestmove line within plan {} ms + {} ms ({})", go, plan, HARD_WAIT_MS, e.context()));
    }
    let (t1, bm) = lines.last().cloned().unwrap();
    let infos: Vec<String> = lines.iter().map(|x| x.1.clone()).filter(|l| l.starts_with("info")).collect();
    let fence = e.isready(Duration::from_secs(5))?;
    let extra = fence.iter().filter(|l| l.starts_with("bestmove")).count();
    Ok(GoAnswer { bestmove: Some(bm), infos, delay_ms: (t1 - t0).as_secs_f64() * 1000.0, extra_bestmoves: extra })
}
thread_local! { pub static PONDER_ON: std::cell::Cell<bool> = std::cell::Cell::new(false); }
pub fn bestmove_token(line: &str) -> Option<&str> {
    let mut it = line.split(' ');
    if it.next() != Some("bestmove") {
        return None;
    }
    it.next()
}
fn well_formed_move(s: &str) -> bool {
    let b = s.as_bytes();
    (b.len() == 4 || b.len() == 5) && (b'a'..=b'h').contains(&b[0]) && (b'1'..=b'8').contains(&b[1]) && (b'a'..=b'h').contains(&b[2]) && (b'1'..=b'8').contains(&b[3]) && (b.len() == 4 || b"qrbn".contains(&b[4]))
}
/// C03's predicate on one answer in position `p`; returns the move
pub fn check_bestmove(line: &str, p: &Pos) -> Result<Move, String> {
    let tok = bestmove_token(line).ok_or_else(|| format!("malformed bestmove line {:?}", line))?;
    // after `setoption name Ponder value true` the protocol allows `bestmove X ponder Y`
    let parts: Vec<&str> = line.split(' ').collect();
    let ponder_form = PONDER_ON.with(|x| x.get()) && parts.len() == 4 && parts[2] == "ponder" && well_formed_move(parts[3]);
    if !(parts.len() == 2 || ponder_form) || !well_formed_move(tok) {
        return Err(format!("bestmove line {:?} is not `bestmove <from><to>[qrbn]`", line));
    }
    let m = parse_mv(tok).ok_or_else(|| format!("bestmove {:?} is not a move", tok))?;
    let legal = p.legal_moves();
    if !legal.contains(&m) {
        let same = legal.iter().find(|l| l.from == m.from && l.to == m.to);
        return Err(match same {
            Some(l) if l.promo.is_some() && m.promo.is_none() => format!("bestmove {} promotes but carries no promotion letter, in '{}'", tok, p.fen()),
            Some(_) => format!("bestmove {} carries a promotion letter but the move does not promote, in '{}'", tok, p.fen()),
            None => format!("bestmove {} is not a legal move in '{}'", tok, p.fen()),
        });
    }
    Ok(m)
}

// ---------------------------------------------------------------------------------------------
// sessions

#[derive(Debug, Clone)]
pub struct PosSpec {
    pub walk: WalkRecipe,
    /// 0 `position fen F` of the final position, 1 `position fen F0 moves ...`, 2 startpos form when possible
    pub form: u8,
}
thread_local! { static REPLAY_TEXT: std::cell::RefCell<Option<(String, Pos)>> = std::cell::RefCell::new(None); }
pub fn position_text(ps: &PosSpec) -> Option<(String, Pos)> {
    if let Some(x) = REPLAY_TEXT.with(|s| s.borrow().clone()) {
        return Some(x);
    }
    let (start, mut moves) = play_walk(&ps.walk)?;
    let mut p = start.clone();
    for m in &moves {
        p = p.apply(m);
    }
    // forms 3 and 4: the game ends with two or three out-and-back cycles, so the current position
    // occurs for the third or fourth time (move-list forms only)
    if ps.form >= 3 {
        if let Some(c) = find_cycle(&p, 12_345, 54_321) {
            for _ in 0..(ps.form - 1) {
                moves.extend(c);
            }
        }
    }
    let names: Vec<String> = moves.iter().map(mv_name).collect();
    let text = match if ps.form >= 3 { 1 } else { ps.form % 3 } {
        0 => format!("position fen {}", p.fen()),
        _ if start == Pos::startpos() && ps.form % 3 == 2 => {
            if names.is_empty() {
                "position startpos".to_string()
            } else {
                format!("position startpos moves {}", names.join(" "))
            }
        }
        _ => {
            if names.is_empty() {
                format!("position fen {}", start.fen())
            } else {
                format!("position fen {} moves {}", start.fen(), names.join(" "))
            }
        }
    };
    Some((text, p))
}
fn promo_rich_walk() -> impl Strategy<Value = WalkRecipe> {
    // pawn one step from promotion, opponent able to castle / capture en passant next
    (proptest::sample::select(vec![18usize, 19, 21, 17, 20]).prop_map(Start::Corpus), proptest::collection::vec(any::<u16>(), 0..6)).prop_map(|(start, choices)| WalkRecipe { start, choices })
}
pub fn pos_spec_strategy() -> impl Strategy<Value = PosSpec> {
    // near-mate placements: few men, forced lines - the search exhausts all its iterations within
    // milliseconds there, so the answer must still wait for the planned time
    let tiny_tree = (placement_near_mate().prop_map(Start::Placement), proptest::collection::vec(any::<u16>(), 0..3)).prop_map(|(start, choices)| WalkRecipe { start, choices });
    (prop_oneof![5 => gamelike_walk_strategy(50), 2 => promo_rich_walk(), 2 => endgame_walk_strategy(30), 2 => tiny_tree], prop_oneof![6 => 0u8..3, 1 => 3u8..5]).prop_map(|(walk, form)| PosSpec { walk, form })
}

#[derive(Debug, Clone)]
pub struct GoSession {
    pub pos: PosSpec,
    pub gos: Vec<GoSpec>,
}

/// C03: every go of a chain gets exactly one legal, well-formed bestmove (also feeds C18's
/// black-box line checks when `lines_too`)
pub fn c03_session(s: &GoSession, lines_too: bool, st: &mut Stats) -> CaseResult {
    let Some((ptext, mut p)) = position_text(&s.pos) else { return Ok(()) };
    if p.legal_moves().is_empty() {
        st.label("terminal_position_skipped");
        return Ok(());
    }
    let mut e = Engine::spawn()?;
    e.handshake()?;
    if s.gos.first().map(|g| g.noise % 4 == 1).unwrap_or(false) {
        // a quarter of the sessions run with the engine's logging option switched on
        e.send("setoption name DebugLogLevel value Info");
        st.label("session_with_logging_on");
    }
    e.send(&ptext);
    let mut chain = 0;
    for g in &s.gos {
        if p.legal_moves().is_empty() {
            break;
        }
        let white = p.stm == Color::White;
        let go = go_text(g, white);
        let plan = plan_ms(&go, white);
        st.eval();
        if lines_too && chain > 0 {
            e.settle(25);
        }
        // one go in six is followed at once by `stop` (ignored by this engine; an engine that
        // honours it must still answer with exactly one legal move)
        let stop_after = !lines_too && stop_after_rule(&ptext, chain as usize, &go);
        if stop_after {
            AFTER_GO.with(|a| *a.borrow_mut() = Some("stop".into()));
            st.label("go_followed_at_once_by_stop");
        }
        let ans = do_go(&mut e, &go, plan).map_err(|m| format!("{} [session: {} ; go #{}{}]", m, ptext, chain + 1, if stop_after { " followed at once by `stop`" } else { "" }))?;
        let ctx = |e: &mut Engine| format!("[session: {} ; go #{} `{}`{}; {}]", ptext, chain + 1, go, if stop_after { " followed at once by `stop`" } else { "" }, e.context());
        if ans.extra_bestmoves > 0 {
            return Err(format!("`{}` produced {} bestmove lines {}", go, 1 + ans.extra_bestmoves, ctx(&mut e)));
        }
        let line = ans.bestmove.clone().unwrap();
        let m = check_bestmove(&line, &p).map_err(|m| format!("{} {}", m, ctx(&mut e)))?;
        if lines_too {
            let infos = c18_lines(&p, &ans.infos, st).map_err(|m| format!("{} {}", m, ctx(&mut e)))?;
            if c18_nontrivial(&infos) {
                st.nontrivial(fp(&(&ptext, chain, &go)));
            }
        } else {
            let cl = p.classify(&m);
            if cl != MoveClass::Quiet || p.in_check(p.stm) || chain > 0 {
                st.nontrivial(fp(&(&ptext, chain, &go)));
            }
            st.label(match cl {
                MoveClass::Quiet => "answer_quiet",
                MoveClass::Capture => "answer_capture",
                MoveClass::Castle => "answer_castle",
                MoveClass::EnPassant => "answer_en_passant",
                MoveClass::Promo | MoveClass::PromoCapture => "answer_promotion",
                MoveClass::DoubleStep => "answer_double_step",
            });
            if chain > 0 {
                st.label("go_without_new_position");
            }
            if plan == 0 {
                st.label("zero_allowance");
            }
        }
        p = p.apply(&m);
        chain += 1;
    }
    e.send("quit");
    Ok(())
}
pub fn go_session_strategy(max_slice: u16, max_gos: usize) -> impl Strategy<Value = GoSession> {
    (pos_spec_strategy(), proptest::collection::vec(go_spec_strategy(max_slice), 1..=max_gos)).prop_map(|(pos, gos)| GoSession { pos, gos })
}
pub fn go_session_json(s: &GoSession) -> Value {
    match position_text(&s.pos) {
        Some((t, p)) => {
            // the go texts depend on the side to move, which alternates along the chain
            let mut white = p.stm == Color::White;
            let mut gos = vec![];
            for g in &s.gos {
                gos.push(go_text(g, white));
                white = !white;
            }
            json!({"position": t, "gos": gos})
        }
        None => json!({"position": null}),
    }
}
/// replay of a concrete session: position text + go texts
/// which gos of a C03 session are followed at once by `stop` (same rule in the run and in a replay)
fn stop_after_rule(ptext: &str, chain: usize, go: &str) -> bool {
    fp(&(ptext, chain, go)) % 6 == 0
}
pub fn replay_go_session(case: &Value, lines_too: bool) -> CaseResult {
    let ptext = case.get("position").and_then(|x| x.as_str()).ok_or("no position in replay case")?;
    if case.get("huge").is_some() {
        let p = position_from_text(ptext)?;
        let which = case.get("which").and_then(|x| x.as_u64()).unwrap_or(0) as u8;
        REPLAY_TEXT.with(|r| *r.borrow_mut() = Some((ptext.to_string(), p)));
        let ps = PosSpec { walk: WalkRecipe { start: Start::Corpus(0), choices: vec![] }, form: 0 };
        let r = c18_huge_clock(&ps, which, &mut Stats::new());
        REPLAY_TEXT.with(|r| *r.borrow_mut() = None);
        return r;
    }
    let gos: Vec<String> = case.get("gos").and_then(|x| x.as_array()).map(|a| a.iter().filter_map(|v| v.as_str().map(|s| s.to_string())).collect()).unwrap_or_default();
    let mut p = position_from_text(ptext)?;
    let mut e = Engine::spawn()?;
    e.handshake()?;
    e.send(ptext);
    let mut st = Stats::new();
    for (i, go) in gos.iter().enumerate() {
        if p.legal_moves().is_empty() {
            break;
        }
        let plan = plan_ms(go, p.stm == Color::White);
        if !lines_too && stop_after_rule(ptext, i, go) {
            AFTER_GO.with(|a| *a.borrow_mut() = Some("stop".into()));
        }
        let ans = do_go(&mut e, go, plan)?;
        if ans.extra_bestmoves > 0 {
            return Err(format!("`{}` (go #{}) produced {} bestmove lines", go, i + 1, 1 + ans.extra_bestmoves));
        }
        let m = check_bestmove(&ans.bestmove.clone().unwrap(), &p)?;
        if lines_too {
            c18_lines(&p, &ans.infos, &mut st)?;
        }
        p = p.apply(&m);
    }
    Ok(())
}
pub fn position_from_text(ptext: &str) -> Result<Pos, String> {
    let t: Vec<&str> = ptext.split(' ').collect();
    let (mut p, rest) = if t.get(1) == Some(&"startpos") {
        (Pos::startpos(), &t[2..])
    } else if t.get(1) == Some(&"fen") && t.len() >= 8 {
        (Pos::parse_fen(&t[2..8].join(" ")).ok_or("bad fen in position text")?, &t[8..])
    } else {
        return Err("bad position text".into());
    };
    if rest.first() == Some(&"moves") {
        for m in &rest[1..] {
            let mv = parse_mv(m).ok_or("bad move in position text")?;
            p = p.apply(&mv);
        }
    }
    Ok(p)
}

/// Directed family: side A has a pawn one step from promotion (its queen promotion is first in the
/// move ordering, so a bare `go` plays it), side B still has a castling right, a blocker on the back
/// rank keeps the new queen from giving check, and little else is on the board, so that a short
/// timed search by B often answers with castling: a reply generated from a parent that was itself
/// a promotion.
#[derive(Debug, Clone)]
pub struct PromoCastle {
    pub white_promotes: bool,
    pub pawn_file: u8,
    pub kingside: bool,
    pub blocker: u8,
    pub ak: u8,
    pub extra: Vec<(u8, bool, u8)>,
    pub slice: u16,
}
pub fn promo_castle_position(r: &PromoCastle) -> Option<Pos> {
    let a = if r.white_promotes { Color::White } else { Color::Black };
    let b = a.opp();
    // B's home rank is A's promotion rank
    let (home, seventh) = if r.white_promotes { (7i8, 6i8) } else { (0i8, 1i8) };
    let mut p = Pos::empty();
    let k = mk(4, home)?;
    p.sq[k as usize] = Some((b, Kind::King));
    let (rook_f, pawn_f, blocker_f) = if r.kingside { (7i8, (r.pawn_file % 2) as i8, 2 + (r.blocker % 2) as i8) } else { (0i8, 6 + (r.pawn_file % 2) as i8, 5i8) };
    p.sq[mk(rook_f, home)? as usize] = Some((b, Kind::Rook));
    p.sq[mk(blocker_f, home)? as usize] = Some((b, if r.blocker & 2 != 0 { Kind::Bishop } else { Kind::Knight }));
    p.sq[mk(pawn_f, seventh)? as usize] = Some((a, Kind::Pawn));
    let ak = r.ak as usize % 64;
    if p.sq[ak].is_some() {
        return None;
    }
    p.sq[ak] = Some((a, Kind::King));
    for &(kk, own, s) in &r.extra {
        let s = s as usize % 64;
        if p.sq[s].is_some() {
            continue;
        }
        let kind = [Kind::Pawn, Kind::Pawn, Kind::Knight, Kind::Bishop][kk as usize % 4];
        if kind == Kind::Pawn && (s / 8 == 0 || s / 8 == 7) {
            continue;
        }
        p.sq[s] = Some((if own { a } else { b }, kind));
    }
    p.stm = a;
    match (b, r.kingside) {
        (Color::White, true) => p.wk = true,
        (Color::White, false) => p.wq = true,
        (Color::Black, true) => p.bk = true,
        (Color::Black, false) => p.bq = true,
    }
    if p.is_legal_position() && !p.legal_moves().is_empty() {
        Some(p)
    } else {
        None
    }
}
fn promo_castle_strategy() -> impl Strategy<Value = PromoCastle> {
    (any::<bool>(), 0u8..2, any::<bool>(), 0u8..4, 0u8..64, proptest::collection::vec((0u8..4, any::<bool>(), 0u8..64), 0..5), 20u16..90).prop_map(|(white_promotes, pawn_file, kingside, blocker, ak, extra, slice)| PromoCastle { white_promotes, pawn_file, kingside, blocker, ak, extra, slice })
}
fn promo_castle_texts(r: &PromoCastle) -> Option<(String, Pos, Vec<String>)> {
    let p = promo_castle_position(r)?;
    let b_white = p.stm != Color::White;
    let clock = 100 + (r.slice as u64) * 30 * 10 / 8 + 1;
    let second = if b_white { format!("go wtime {} btime 4000", clock) } else { format!("go btime {} wtime 4000", clock) };
    Some((format!("position fen {}", p.fen()), p, vec!["go".to_string(), second, "go".to_string()]))
}
pub fn c03_promo_castle(r: &PromoCastle, st: &mut Stats) -> CaseResult {
    let Some((ptext, p0, gos)) = promo_castle_texts(r) else {
        st.label("recipe_discarded");
        return Ok(());
    };
    let mut e = Engine::spawn()?;
    e.handshake()?;
    e.send(&ptext);
    let mut p = p0.clone();
    let mut prev_promo = false;
    for (i, go) in gos.iter().enumerate() {
        if p.legal_moves().is_empty() {
            break;
        }
        st.eval();
        let plan = plan_ms(go, p.stm == Color::White);
        let ans = do_go(&mut e, go, plan).map_err(|m| format!("{} [{} ; go #{}]", m, ptext, i + 1))?;
        if ans.extra_bestmoves > 0 {
            return Err(format!("`{}` produced {} bestmove lines [{}]", go, 1 + ans.extra_bestmoves, ptext));
        }
        let line = ans.bestmove.unwrap();
        let m = check_bestmove(&line, &p).map_err(|m| format!("{} [session: {} ; answers so far lead to '{}'; go #{} `{}`]", m, ptext, p.fen(), i + 1, go))?;
        let cl = p.classify(&m);
        if m.promo.is_some() {
            st.label("answer_promotion");
        }
        if cl == MoveClass::Castle {
            st.label("answer_castle");
            if prev_promo {
                st.label("castle_answer_right_after_promotion_answer");
            }
        }
        if i > 0 {
            st.nontrivial(fp(&(&ptext, i)));
        }
        prev_promo = m.promo.is_some();
        p = p.apply(&m);
    }
    e.send("quit");
    Ok(())
}

/// Directed family: a declined en passant. The move list contains a double pawn step next to an
/// enemy pawn; the capture is not made, both sides play quiet piece moves (2 or 4 plies), then `go`
/// with a real slice. The lapsed capture would win a pawn, so an engine that still believes in it
/// tends to play it.
#[derive(Debug, Clone)]
pub struct DeclinedEp {
    pub start: u8,
    pub pre: Vec<u16>,
    pub which: u16,
    pub quiet: Vec<u16>,
    pub plies: u8,
    pub slice: u16,
}
fn declined_ep_texts(r: &DeclinedEp) -> Option<(String, Pos)> {
    let starts = [14usize, 16, 13, 42, 0, 38];
    let start = corpus_pos(starts[r.start as usize % starts.len()]);
    let mut p = start.clone();
    let mut moves: Vec<Move> = vec![];
    // a few arbitrary plies first
    for &c in &r.pre {
        let mut ms = p.legal_moves();
        if ms.is_empty() {
            return None;
        }
        ms.sort();
        let m = pick_weighted(&p, &ms, c);
        p = p.apply(&m);
        moves.push(m);
    }
    // a double step that lands beside an enemy pawn
    let mut ds: Vec<Move> = p.legal_moves().into_iter().filter(|m| p.classify(m) == MoveClass::DoubleStep && {
        let q = p.apply(m);
        q.pseudo().iter().any(|x| q.classify(x) == MoveClass::EnPassant)
    }).collect();
    ds.sort();
    if ds.is_empty() {
        return None;
    }
    let m = pick_uniform(&ds, r.which);
    p = p.apply(&m);
    moves.push(m);
    // quiet piece moves by both sides
    let n = if r.plies % 2 == 0 { 2 } else { 4 };
    for j in 0..n {
        let mut qs: Vec<Move> = p.legal_moves().into_iter().filter(|m| p.classify(m) == MoveClass::Quiet && p.sq[m.from as usize].map(|x| x.1) != Some(Kind::Pawn)).collect();
        qs.sort();
        if qs.is_empty() {
            return None;
        }
        let m = pick_uniform(&qs, r.quiet.get(j).cloned().unwrap_or(0));
        p = p.apply(&m);
        moves.push(m);
    }
    if p.legal_moves().is_empty() {
        return None;
    }
    let names: Vec<String> = moves.iter().map(mv_name).collect();
    let text = if start == Pos::startpos() { format!("position startpos moves {}", names.join(" ")) } else { format!("position fen {} moves {}", start.fen(), names.join(" ")) };
    Some((text, p))
}
fn declined_ep_strategy() -> impl Strategy<Value = DeclinedEp> {
    (0u8..6, proptest::collection::vec(any::<u16>(), 0..6), any::<u16>(), proptest::collection::vec(any::<u16>(), 4), any::<u8>(), 20u16..80).prop_map(|(start, pre, which, quiet, plies, slice)| DeclinedEp { start, pre, which, quiet, plies, slice })
}
fn declined_ep_json(r: &DeclinedEp) -> Value {
    match declined_ep_texts(r) {
        Some((t, p)) => {
            let clock = 100 + (r.slice as u64) * 30 * 10 / 8 + 1;
            let go = if p.stm == Color::White { format!("go wtime {} btime 4000", clock) } else { format!("go btime {} wtime 4000", clock) };
            json!({"position": t, "gos": [go]})
        }
        None => json!({"position": null}),
    }
}

pub fn run_c03(ctx: &mut Ctx) {
    let t = ctx.tier;
    ctx.max_shrink_iters = 16;
    let saved = ctx.workers;
    // two load levels to vary the interleavings of the search and I/O threads
    for (name, workers, pin, cases) in [("go_chains_16_at_a_time", 16usize, false, t.pick(1_000u32, 30_000u32)), ("go_chains_oversubscribed_48_at_a_time", 48usize, false, t.pick(800u32, 20_000u32)), ("go_chains_each_engine_pinned_to_one_core", 16usize, true, t.pick(500u32, 20_000u32))] {
        ctx.workers = workers;
        run_prop(
            ctx,
            name,
            || go_session_strategy(120, 6),
            cases,
            move |s, st| {
                st.sample(|| go_session_json(s));
                PIN_ONE_CORE.with(|p| p.set(pin));
                let r = c03_session(s, false, st);
                PIN_ONE_CORE.with(|p| p.set(false));
                if pin && taskset_available() {
                    st.label("engine_pinned_to_one_core");
                }
                r
            },
            go_session_json,
        );
    }
    ctx.workers = 12;
    run_prop(
        ctx,
        "promotion_then_castling_chains",
        promo_castle_strategy,
        t.pick(1_400, 30_000),
        |r, st| {
            st.sample(|| json!({"position": promo_castle_texts(r).map(|x| x.0), "gos": promo_castle_texts(r).map(|x| x.2)}));
            c03_promo_castle(r, st)
        },
        |r| json!({"position": promo_castle_texts(r).map(|x| x.0), "gos": promo_castle_texts(r).map(|x| x.2)}),
    );
    run_prop(
        ctx,
        "declined_en_passant_then_go",
        declined_ep_strategy,
        t.pick(1_600, 16_000),
        |r, st| {
            let v = declined_ep_json(r);
            if v["position"].is_null() {
                st.label("recipe_discarded");
                return Ok(());
            }
            st.eval();
            st.sample(|| v.clone());
            st.nontrivial(fp(&v.to_string()));
            replay_go_session(&v, false)
        },
        declined_ep_json,
    );
    run_prop(
        ctx,
        "positions_with_very_many_legal_moves",
        || (prop_oneof![1 => placement_crowd(), 3 => placement_fan()], 0u8..4),
        t.pick(260, 6_000),
        |(r, second), st| {
            let Some(p) = build_placement(r) else {
                st.label("recipe_discarded");
                return Ok(());
            };
            let n = p.legal_moves().len();
            if n < 60 {
                st.label("fewer_than_60_moves_skip");
                return Ok(());
            }
            st.eval();
            st.label(if n > 128 { "more_than_128_legal_moves" } else if n >= 100 { "100_to_128_legal_moves" } else { "60_to_99_legal_moves" });
            let go2 = ["go", "go wtime 160 btime 160 movestogo 2", "go wtime 400 btime 400", "go movestogo 1 wtime 130 btime 130"][*second as usize % 4];
            let v = json!({"position": format!("position fen {}", p.fen()), "gos": ["go", go2]});
            st.sample(|| v.clone());
            if n >= 100 {
                st.nontrivial(fp(&v.to_string()));
            }
            replay_go_session(&v, false)
        },
        |(r, second)| match build_placement(r) {
            Some(p) => {
                let go2 = ["go", "go wtime 160 btime 160 movestogo 2", "go wtime 400 btime 400", "go movestogo 1 wtime 130 btime 130"][*second as usize % 4];
                json!({"position": format!("position fen {}", p.fen()), "gos": ["go", go2]})
            }
            None => json!({"position": null}),
        },
    );
    run_prop(
        ctx,
        "very_long_move_lists",
        long_game_strategy,
        t.pick(48, 1_200),
        |g, st| {
            let v = long_game_json(g);
            st.eval();
            let bytes = v["position"].as_str().map(|x| x.len()).unwrap_or(0);
            st.label(&format!("position_line_of_{}_KiB_or_more", [64, 32, 16, 8, 4, 0].iter().find(|&&k| bytes >= k * 1024).unwrap()));
            st.sample(|| json!({"position_line_bytes": bytes, "plies": v["plies"], "line_starts": v["position"].as_str().map(|x| x.chars().take(90).collect::<String>()), "gos": v["gos"]}));
            if bytes > 4096 {
                st.nontrivial(fp(&v.to_string()));
            }
            replay_go_session(&v, false)
        },
        long_game_json,
    );
    ctx.workers = saved;
}

/// C03 on very long games: `position ... moves` lines of 700 to 13500 plies (3.5 KiB to 66 KiB of
/// text). The walk prefers quiet piece moves so that the game goes on; the oracle tracks the board.
#[derive(Debug, Clone)]
pub struct LongGame {
    pub start: usize,
    pub seed: u64,
    pub plies: u32,
    pub second: u8,
}
fn long_game_strategy() -> impl Strategy<Value = LongGame> {
    (0usize..8, any::<u64>(), prop_oneof![3 => 700u32..1000, 3 => 1500u32..1800, 2 => 3000u32..3600, 1 => 6200u32..7000, 1 => 12_800u32..13_500], 0u8..4).prop_map(|(start, seed, plies, second)| LongGame { start, seed, plies, second })
}
fn long_game_json(g: &LongGame) -> Value {
    let idx = gamelike_indices();
    let mut p = if g.start < 3 { Pos::startpos() } else { corpus_pos(idx[(g.start * 7) % idx.len()]) };
    let from_startpos = p == Pos::startpos();
    let start_fen = p.fen();
    let mut x = g.seed | 1;
    let mut names: Vec<String> = vec![];
    for _ in 0..g.plies {
        let ms = p.legal_moves();
        if ms.is_empty() {
            break;
        }
        x = x.wrapping_mul(6364136223846793005).wrapping_add(1442695040888963407);
        let quiet: Vec<&Move> = ms.iter().filter(|m| p.sq[m.to as usize].is_none() && !matches!(p.sq[m.from as usize], Some((_, Kind::Pawn)))).collect();
        let pool: Vec<&Move> = if !quiet.is_empty() && (x >> 60) != 0 { quiet } else { ms.iter().collect() };
        // keep the game unfinished: take the first move of the rotation that does not end it
        let k0 = ((x >> 20) as usize) % pool.len();
        let Some((m, q)) = (0..pool.len()).map(|d| pool[(k0 + d) % pool.len()]).map(|m| (m.clone(), p.apply(m))).find(|(_, q)| !q.legal_moves().is_empty()) else { break };
        names.push(mv_name(&m));
        p = q;
    }
    let moves = if names.is_empty() { String::new() } else { format!(" moves {}", names.join(" ")) };
    let text = if from_startpos { format!("position startpos{}", moves) } else { format!("position fen {}{}", start_fen, moves) };
    let second = ["go", "go wtime 200 btime 200 movestogo 10", "go wtime 130 btime 130 winc 10 binc 10", "go movestogo 3"][g.second as usize % 4];
    json!({"position": text, "gos": ["go", second], "plies": names.len()})
}

/// C18 with enormous clocks ("all clock settings"): the search runs until the process is killed; the
/// lines printed in the first few hundred milliseconds are judged.
pub fn c18_huge_clock(ps: &PosSpec, which: u8, st: &mut Stats) -> CaseResult {
    let Some((ptext, p)) = position_text(ps) else { return Ok(()) };
    if p.legal_moves().is_empty() {
        return Ok(());
    }
    st.eval();
    // slices of 2^64 ms and a little more, 10^15 ms, and about i128::MAX / 80 ms
    let clocks = ["691752902764108120700", "691752902764108128200", "691752902764108158200", "37500000000000100", "2126764793255865396646091296448555", "18446744073709551716"];
    let c = clocks[which as usize % clocks.len()];
    let go = if p.stm == Color::White { format!("go wtime {} btime 1000", c) } else { format!("go btime {} wtime 1000", c) };
    let mut e = Engine::spawn()?;
    e.handshake()?;
    e.send(&ptext);
    e.send(&go);
    let (lines, _) = e.read_until(|l| l.starts_with("bestmove"), Duration::from_millis(500));
    let infos: Vec<String> = lines.iter().map(|x| x.1.clone()).filter(|l| l.starts_with("info")).collect();
    if lines.iter().any(|l| l.1.starts_with("bestmove")) {
        // an answer within half a second of an allowance of millions of years is only legitimate
        // when the search ran out of iterations (tiny tree: depth 99 reached)
        let deepest = infos.iter().filter_map(|l| parse_info(l).ok()).map(|i| i.depth).max().unwrap_or(0);
        if deepest < 99 {
            let _ = c18_lines(&p, &infos, st).map_err(|m| format!("{} [`{}` ; `{}`]", m, ptext, go))?;
        }
    }
    let parsed = c18_lines(&p, &infos, st).map_err(|m| format!("{} [`{}` ; `{}`]", m, ptext, go))?;
    if c18_nontrivial(&parsed) {
        st.nontrivial(fp(&(&ptext, &go)));
    }
    st.label("huge_clock_sessions");
    Ok(())
}

pub fn run_c18_blackbox(ctx: &mut Ctx) {
    let t = ctx.tier;
    {
        let saved = ctx.workers;
        ctx.workers = 8;
        ctx.max_shrink_iters = 8;
        run_prop(
            ctx,
            "real_binary_enormous_clocks",
            || (pos_spec_strategy(), any::<u8>()),
            t.pick(120, 1_500),
            |(ps, which), st| {
                st.sample(|| json!({"huge": true, "position": position_text(ps).map(|x| x.0), "which": which}));
                match c18_huge_clock(ps, *which, st) {
                    Ok(()) => Ok(()),
                    Err(first) => {
                        if c18_huge_clock(ps, *which, &mut Stats::new()).is_ok() {
                            st.label("anomaly_not_reproduced_on_second_attempt");
                            Ok(())
                        } else {
                            Err(first)
                        }
                    }
                }
            },
            |(ps, which)| json!({"blackbox": true, "huge": true, "position": position_text(ps).map(|x| x.0), "which": which}),
        );
        ctx.workers = saved;
    }
    ctx.max_shrink_iters = 12;
    let saved = ctx.workers;
    ctx.workers = 6;
    run_prop(
        ctx,
        "real_binary_timed_sessions",
        || (pos_spec_strategy(), proptest::collection::vec(go_spec_strategy(150).prop_map(|mut g| {
            g.kind = 4;
            g
        }), 1..3)).prop_map(|(pos, gos)| GoSession { pos, gos }),
        t.pick(800, 8_000),
        |s, st| {
            st.sample(|| go_session_json(s));
            // a malformed sequence must reproduce (a late line of an earlier search is a benign race)
            match c03_session(s, true, st) {
                Ok(()) => Ok(()),
                Err(first) => match c03_session(s, true, &mut Stats::new()) {
                    Ok(()) => {
                        st.label("anomaly_not_reproduced_on_second_attempt");
                        Ok(())
                    }
                    Err(_) => Err(first),
                },
            }
        },
        |s| {
            let mut v = go_session_json(s);
            v["blackbox"] = json!(true);
            v
        },
    );
    ctx.workers = saved;
}

// ---------------------------------------------------------------------------------------------
// C08 and the timed part of C09

/// a position for the timing checks: terminal ones included (checkmates and stalemates found by
/// weighted walks and near-mate constructions)
#[derive(Debug, Clone)]
pub struct TimedCase {
    pub pos: PosSpec,
    pub terminal_hunt: Option<PlacementRecipe>,
    pub go: GoSpec,
    pub follow: PosSpec,
    /// option lines sent after the handshake (followed by isready): 0-3 none, 4 Ponder on, 5 Hash 1,
    /// 6 Hash 256, 7 Hash 1024, 8 Ponder on + Hash 64, 9 the `Clear Hash` button
    pub options: u8,
}
pub fn option_lines(o: u8) -> Vec<String> {
    match o % 10 {
        4 => vec!["setoption name Ponder value true".into()],
        5 => vec!["setoption name Hash value 1".into()],
        6 => vec!["setoption name Hash value 256".into()],
        7 => vec!["setoption name Hash value 1024".into()],
        8 => vec!["setoption name Ponder value true".into(), "setoption name Hash value 64".into()],
        9 => vec!["setoption name Clear Hash".into()],
        _ => vec![],
    }
}
fn timed_position(c: &TimedCase) -> Option<(String, Pos)> {
    if let Some(r) = &c.terminal_hunt {
        if let Some(p) = build_placement(r) {
            // look for a finished game within two plies of the construction
            let mut q = p.clone();
            if !q.legal_moves().is_empty() {
                let mut found = None;
                'outer: for m in q.legal_moves() {
                    let a = q.apply(&m);
                    if a.legal_moves().is_empty() {
                        found = Some(a);
                        break;
                    }
                    for m2 in a.legal_moves() {
                        let b = a.apply(&m2);
                        if b.legal_moves().is_empty() {
                            found = Some(b);
                            break 'outer;
                        }
                    }
                }
                if let Some(f) = found {
                    q = f;
                }
            }
            if q.legal_moves().is_empty() {
                return Some((format!("position fen {}", q.fen()), q));
            }
        }
    }
    position_text(&c.pos)
}
fn timed_strategy(max_slice: u16) -> impl Strategy<Value = TimedCase> {
    (pos_spec_strategy(), prop_oneof![1 => Just(None), 2 => placement_near_mate().prop_map(Some)], go_spec_strategy(max_slice), pos_spec_strategy(), 0u8..10).prop_map(|(pos, terminal_hunt, go, follow, options)| TimedCase { pos, terminal_hunt, go, follow, options })
}
fn is_null_move(tok: &str) -> bool {
    tok == "0000" || tok == "(none)"
}
/// one measurement: Ok(delay) or Err(hard failure that is not about latency)
thread_local! { static C08_OPTIONS: std::cell::Cell<u8> = std::cell::Cell::new(0); }
/// one measurement: Ok(worst delay in excess of its plan over the gos of the session, as delay of the
/// first go + excess of the follow-up) or Err(hard failure that is not about latency)
fn c08_once(ptext: &str, p: &Pos, go: &str, plan: u64, follow: Option<&(String, Pos)>, st: &mut Stats) -> Result<f64, String> {
    let mut e = Engine::spawn()?;
    e.handshake()?;
    let opts = option_lines(C08_OPTIONS.with(|x| x.get()));
    if !opts.is_empty() {
        for o in &opts {
            e.send(o);
        }
        // an engine may need a while to act on an option (allocating a table): that is what isready is for
        e.isready(Duration::from_secs(20)).map_err(|m| format!("after {:?}: {}", opts, m))?;
        st.label("session_with_option_lines");
    }
    PONDER_ON.with(|x| x.set(opts.iter().any(|o| o.contains("Ponder"))));
    let r = c08_session_body(&mut e, ptext, p, go, plan, follow, st).map_err(|m| if opts.is_empty() { m } else { format!("{} [after {:?}]", m, opts) });
    PONDER_ON.with(|x| x.set(false));
    r
}
fn c08_session_body(e: &mut Engine, ptext: &str, p: &Pos, go: &str, plan: u64, follow: Option<&(String, Pos)>, st: &mut Stats) -> Result<f64, String> {
    let mut e = e;
    e.send(ptext);
    let ans = do_go(&mut e, go, plan).map_err(|m| format!("{} [{}]", m, ptext))?;
    let line = ans.bestmove.clone().unwrap();
    let terminal = p.legal_moves().is_empty();
    if terminal {
        let tok = bestmove_token(&line).unwrap_or("");
        if !is_null_move(tok) {
            return Err(format!("the game is over in '{}' but `{}` was answered with {:?} instead of a null move", p.fen(), go, line));
        }
    } else {
        check_bestmove(&line, p).map_err(|m| format!("{} [{} ; {}]", m, ptext, go))?;
    }
    if ans.extra_bestmoves > 0 {
        return Err(format!("`{}` produced {} bestmove lines [{}]", go, 1 + ans.extra_bestmoves, ptext));
    }
    // still responsive and serving
    e.isready(Duration::from_secs(1)).map_err(|m| format!("after answering `{}` in [{}]: {}", go, ptext, m))?;
    let mut follow_excess = 0.0f64;
    if let Some((ft, fp_)) = follow {
        if !fp_.legal_moves().is_empty() {
            e.send(ft);
            let a2 = do_go(&mut e, "go", 0).map_err(|m| format!("follow-up after [{} ; {}]: {}", ptext, go, m))?;
            check_bestmove(&a2.bestmove.unwrap(), fp_).map_err(|m| format!("follow-up `{}` + go after [{} ; {}]: {}", ft, ptext, go, m))?;
            st.label("follow_up_served");
            // the follow-up `go` has a zero allowance: whatever it takes counts against the same bound
            follow_excess = a2.delay_ms;
        }
    }
    e.send("quit");
    if e.wait_exit(Duration::from_secs(2)).is_none() {
        return Err(format!("`quit` did not end the process within 2 s [{} ; {}]", ptext, go));
    }
    Ok(ans.delay_ms.max(plan as f64 + follow_excess))
}
/// latency verdict with re-measurement: only three misses in a row (the last two measured serially)
/// make a violation
static SERIAL: std::sync::Mutex<()> = std::sync::Mutex::new(());
fn latency_rule(first: f64, plan: u64, lower_too: bool, remeasure: impl Fn() -> Result<f64, String>) -> Result<(), String> {
    let miss = |d: f64| d > (plan + DELTA_MS) as f64 || (lower_too && d + (EARLY_MS as f64) < plan as f64);
    if !miss(first) {
        return Ok(());
    }
    let _g = SERIAL.lock().unwrap_or_else(|e| e.into_inner());
    let second = remeasure()?;
    if !miss(second) {
        return Ok(());
    }
    let third = remeasure()?;
    if !miss(third) {
        return Ok(());
    }
    Err(format!("measured go->bestmove delays {:.1} / {:.1} / {:.1} ms against a planned slice of {} ms (allowed: {}{} ms .. {} ms)", first, second, third, plan, if lower_too { "" } else { "no lower bound, " }, plan.saturating_sub(EARLY_MS), plan + DELTA_MS))
}

/// the go command of a C08 case: on finished games half of the cases carry clocks that plan a slice
/// of seconds (the answer must come at once anyway, and must not cost the NEXT go anything)
fn c08_go_text(c: &TimedCase, p: &Pos) -> String {
    let white = p.stm == Color::White;
    if p.legal_moves().is_empty() && c.options % 2 == 0 {
        let clock = 30_100 + (c.go.slice_ms as u64 % 7) * 10_000;
        return format!("go wtime {} btime {}", clock, clock);
    }
    go_text(&c.go, white)
}
pub fn c08_case(c: &TimedCase, st: &mut Stats) -> CaseResult {
    let Some((ptext, p)) = timed_position(c) else { return Ok(()) };
    let white = p.stm == Color::White;
    let terminal = p.legal_moves().is_empty();
    let go = c08_go_text(c, &p);
    let plan = plan_ms(&go, white);
    let follow = position_text(&c.follow);
    st.eval();
    if terminal {
        st.label(if p.in_check(p.stm) { "terminal_checkmate" } else { "terminal_stalemate" });
        if plan >= 1000 {
            st.label("terminal_with_a_slice_of_seconds");
        }
    }
    C08_OPTIONS.with(|x| x.set(c.options));
    // a third of the cases run with the engine pinned to one core (both threads share a CPU)
    let pin = fp(&(&ptext, &go)) % 3 == 0;
    PIN_ONE_CORE.with(|x| x.set(pin));
    let d = c08_once(&ptext, &p, &go, plan, follow.as_ref(), st);
    PIN_ONE_CORE.with(|x| x.set(false));
    let d = d?;
    if pin && taskset_available() {
        st.label("engine_pinned_to_one_core");
    }
    latency_rule(d, plan, false, || c08_once(&ptext, &p, &go, plan, follow.as_ref(), &mut Stats::new())).map_err(|m| format!("{} [{} ; {} ; then {:?} + go]", m, ptext, go, follow.as_ref().map(|f| &f.0)))?;
    if terminal || plan > 0 {
        st.nontrivial(fp(&(&ptext, &go)));
    }
    if plan == 0 {
        st.label("zero_allowance");
    } else {
        st.label("timed");
    }
    Ok(())
}
fn timed_json(c: &TimedCase) -> Value {
    match timed_position(c) {
        Some((t, p)) => json!({"position": t, "go": c08_go_text(c, &p), "follow": position_text(&c.follow).map(|x| x.0), "options": c.options}),
        None => json!({"position": null}),
    }
}
pub fn run_c08(ctx: &mut Ctx) {
    let t = ctx.tier;
    ctx.max_shrink_iters = 10;
    let saved = ctx.workers;
    ctx.workers = 8;
    run_prop(
        ctx,
        "go_answered_in_bounded_time_then_responsive",
        || timed_strategy(250),
        t.pick(1_500, 60_000),
        |c, st| {
            st.sample(|| timed_json(c));
            c08_case(c, st)
        },
        timed_json,
    );
    ctx.workers = saved;
}
/// C08 on positions with very large capture trees: many queens (some rooks) a side, every man en
/// prise to several others (random swarms, and balanced lattices where every man is also defended). A single quiescence search on such a position runs for seconds, so the
/// answer is on time only if the clock is consulted inside it. Construction, not rejection: a man
/// whose placement would leave both kings attacked is skipped; the side in check is to move.
#[derive(Debug, Clone)]
pub struct SwarmCase {
    pub wk: u8,
    pub bk: u8,
    pub men: Vec<(bool, bool, u8)>,
    pub white_to_move: bool,
    pub clock: u16,
    pub form: u8,
    /// Some((parity, lowest band rank 1..=3, colours swapped, noise per lattice square)): two bands of
    /// two ranks each, men on alternating squares, every man defended and attacked - exchanges stay
    /// balanced, so the capture search has no early cut-offs. `men` is ignored then.
    pub lattice: Option<(u8, u8, bool, Vec<u8>)>,
}
fn build_lattice(c: &SwarmCase, par: u8, base: u8, flip: bool, noise: &[u8]) -> Option<Pos> {
    let mut p = Pos::empty();
    let mut i = 0;
    for band in 0..4u8 {
        let r = base + band;
        let white = (band < 2) != flip;
        for f in 0..8u8 {
            if (f + r + par) % 2 != 0 {
                continue;
            }
            let n = noise.get(i).copied().unwrap_or(255);
            i += 1;
            if n < 8 {
                continue; // about 3 % of the lattice squares stay empty
            }
            p.sq[(r * 8 + f) as usize] = Some((if white { Color::White } else { Color::Black }, if n < 21 { Kind::Rook } else { Kind::Queen }));
        }
    }
    // kings on the back ranks behind their own band
    let (wr, br) = if flip { (7, 0) } else { (0, 7) };
    p.sq[(wr * 8 + c.wk % 8) as usize] = Some((Color::White, Kind::King));
    p.sq[(br * 8 + c.bk % 8) as usize] = Some((Color::Black, Kind::King));
    p.stm = if c.white_to_move { Color::White } else { Color::Black };
    if p.in_check(Color::White) {
        p.stm = Color::White;
    }
    if p.in_check(Color::Black) {
        p.stm = Color::Black;
    }
    if p.is_legal_position() {
        Some(p)
    } else {
        None
    }
}
/// A balanced lattice (bands on ranks 2-5) with a smothered-mate gadget in a far corner: the side to
/// move mates in one with a knight, and every other root move starts a capture search of seconds.
/// Mating side = White (colours swapped when `flip`). Kept only if the oracle confirms the mate.
pub fn build_lattice_with_mate(par: u8, flip: bool, right_corner: bool, noise: &[u8], mover_king_file: u8) -> Option<Pos> {
    let mut p = Pos::empty();
    let mut i = 0;
    // white band ranks 2,3 (index 1,2), black band ranks 4,5 (index 3,4)
    for band in 0..4u8 {
        let r = 1 + band;
        let white = band < 2;
        for f in 0..8u8 {
            if (f + r + par) % 2 != 0 {
                continue;
            }
            let n = noise.get(i).copied().unwrap_or(255);
            i += 1;
            if n < 8 {
                continue;
            }
            p.sq[(r * 8 + f) as usize] = Some((if white { Color::White } else { Color::Black }, if n < 21 { Kind::Rook } else { Kind::Queen }));
        }
    }
    // gadget on ranks 6-8: king in the corner, rook beside it, two pawns in front, knight ready to jump
    let m = |f: u8| if right_corner { f } else { 7 - f };
    let sq = |f: u8, r: u8| (r * 8 + m(f)) as usize;
    p.sq[sq(7, 7)] = Some((Color::Black, Kind::King));
    p.sq[sq(6, 7)] = Some((Color::Black, Kind::Rook));
    p.sq[sq(6, 6)] = Some((Color::Black, Kind::Pawn));
    p.sq[sq(7, 6)] = Some((Color::Black, Kind::Pawn));
    p.sq[sq(7, 5)] = Some((Color::White, Kind::Knight)); // h6 -> f7 mate
    let f7 = sq(5, 6) as u8;
    // no black man may attack the mating square, and the files / diagonals towards the corner stay shut
    for s in 0..64u8 {
        if let Some((Color::Black, k)) = p.sq[s as usize] {
            if k != Kind::King && k != Kind::Pawn && p.man_attacks(s, (Color::Black, k), f7) {
                p.sq[s as usize] = None;
            }
        }
    }
    let wkf = if (right_corner && mover_king_file % 8 >= 5) || (!right_corner && mover_king_file % 8 <= 2) { 3 } else { mover_king_file % 8 };
    p.sq[wkf as usize] = Some((Color::White, Kind::King));
    p.stm = Color::White;
    // mirror() flips ranks, colours and the side to move (White to move becomes Black to move)
    let q = if flip { p.mirror() } else { p };
    if !q.is_legal_position() || q.in_check(q.stm) {
        return None;
    }
    if !q.legal_moves().iter().any(|mv| q.apply(mv).is_checkmate()) {
        return None;
    }
    Some(q)
}
pub fn build_swarm(c: &SwarmCase) -> Option<Pos> {
    if let Some((par, base, flip, noise)) = &c.lattice {
        return build_lattice(c, *par, *base, *flip, noise);
    }
    if c.wk == c.bk {
        return None;
    }
    let mut p = Pos::empty();
    p.sq[c.wk as usize] = Some((Color::White, Kind::King));
    p.sq[c.bk as usize] = Some((Color::Black, Kind::King));
    let (mut nw, mut nb) = (0, 0);
    for &(white, rook, s) in &c.men {
        if p.sq[s as usize].is_some() {
            continue;
        }
        // at most seven extra heavy men a side: material a game can reach through promotions
        if (white && nw >= 7) || (!white && nb >= 7) {
            continue;
        }
        p.sq[s as usize] = Some((if white { Color::White } else { Color::Black }, if rook { Kind::Rook } else { Kind::Queen }));
        if p.in_check(Color::White) && p.in_check(Color::Black) {
            p.sq[s as usize] = None;
            continue;
        }
        if white {
            nw += 1
        } else {
            nb += 1
        }
    }
    p.stm = if c.white_to_move { Color::White } else { Color::Black };
    if p.in_check(Color::White) {
        p.stm = Color::White;
    }
    if p.in_check(Color::Black) {
        p.stm = Color::Black;
    }
    if p.is_legal_position() {
        Some(p)
    } else {
        None
    }
}
fn swarm_strategy() -> impl Strategy<Value = SwarmCase> {
    (
        0u8..64,
        0u8..64,
        proptest::collection::vec((any::<bool>(), prop_oneof![5 => Just(false), 1 => Just(true)], 0u8..64), 10..26),
        any::<bool>(),
        100u16..260,
        0u8..3,
        prop_oneof![1 => Just(None), 3 => (0u8..2, 1u8..4, any::<bool>(), proptest::collection::vec(any::<u8>(), 16..=16)).prop_map(Some)],
    )
        .prop_map(|(wk, bk, men, white_to_move, clock, form, lattice)| SwarmCase { wk, bk, men, white_to_move, clock, form, lattice })
}
fn swarm_texts(c: &SwarmCase) -> Option<(String, Pos, String)> {
    let p = build_swarm(c)?;
    let go = match c.form {
        0 => format!("go wtime {} btime {} movestogo 1", c.clock, c.clock),
        1 => format!("go wtime {} btime {} winc 0 binc 0 movestogo 2", c.clock as u32 * 2, c.clock as u32 * 2),
        _ => format!("go wtime {} btime {}", c.clock as u32 * 20, c.clock as u32 * 20),
    };
    Some((format!("position fen {}", p.fen()), p, go))
}
fn swarm_json(c: &SwarmCase) -> Value {
    match swarm_texts(c) {
        Some((t, _, go)) => json!({"position": t, "go": go, "follow": null}),
        None => json!({"position": null}),
    }
}
pub fn c08_swarm_case(c: &SwarmCase, st: &mut Stats) -> CaseResult {
    let Some((ptext, p, go)) = swarm_texts(c) else {
        st.label("construction_failed_skip");
        return Ok(());
    };
    let white = p.stm == Color::White;
    let plan = plan_ms(&go, white);
    st.eval();
    let heavy = (0..64).filter(|&s| matches!(p.sq[s], Some((_, Kind::Queen)) | Some((_, Kind::Rook)))).count();
    st.label(&format!("heavy_men_{}", if heavy >= 12 { "12_or_more" } else if heavy >= 8 { "8_to_11" } else { "under_8" }));
    if p.in_check(p.stm) {
        st.label("side_to_move_in_check");
    }
    st.label(if c.lattice.is_some() { "balanced_lattice" } else { "random_swarm" });
    C08_OPTIONS.with(|x| x.set(0));
    let d = c08_once(&ptext, &p, &go, plan, None, st)?;
    latency_rule(d, plan, false, || c08_once(&ptext, &p, &go, plan, None, &mut Stats::new())).map_err(|m| format!("{} [{} ; {}]", m, ptext, go))?;
    if heavy >= 8 {
        st.nontrivial(fp(&(&ptext, &go)));
    }
    Ok(())
}
pub fn run_c08_swarm(ctx: &mut Ctx) {
    let t = ctx.tier;
    ctx.max_shrink_iters = 10;
    let saved = ctx.workers;
    ctx.workers = 8;
    run_prop(
        ctx,
        "capture_heavy_positions_answered_within_the_slice",
        swarm_strategy,
        t.pick(240, 6_000),
        |c, st| {
            st.sample(|| swarm_json(c));
            c08_swarm_case(c, st)
        },
        swarm_json,
    );
    ctx.workers = saved;
}
/// C08 with slices of seconds: an overhead that grows with the slice (naps that are counted
/// instead of timed, a polling interval that widens) stays inside the tolerance on short slices and
/// shows on long ones. Few cases, run side by side.
pub fn run_c08_long(ctx: &mut Ctx) {
    let t = ctx.tier;
    ctx.max_shrink_iters = 0;
    let saved = ctx.workers;
    ctx.workers = 8;
    run_prop(
        ctx,
        "slices_of_seconds_answered_on_time",
        || (gamelike_walk_strategy(30), 0u16..2000, 0u8..3, (0u8..2, any::<bool>(), any::<bool>(), proptest::collection::vec(any::<u8>(), 16..=16), 0u8..8), 0u8..3),
        t.pick(8, 64),
        |(walk, extra, form, lat, kind), st| {
            let ps = PosSpec { walk: walk.clone(), form: 1 };
            let Some((mut ptext, mut p)) = position_text(&ps) else { return Ok(()) };
            // two cases in three: a balanced lattice with a mate in one on the board - the search finds
            // the mate, spends seconds on the capture trees of the other root moves, runs through the
            // remaining iterations at once and ends long before the slice does
            if *kind < 2 {
                if let Some(q) = build_lattice_with_mate(lat.0, lat.1, lat.2, &lat.3, lat.4) {
                    ptext = format!("position fen {}", q.fen());
                    p = q;
                    st.label("capture_heavy_position_with_a_mate_in_one");
                }
            }
            if p.legal_moves().is_empty() {
                return Ok(());
            }
            let slice = 6_000 + *extra as u64;
            let go = match form {
                0 => format!("go wtime {} btime {} movestogo 1", slice * 10 / 8 + 100, slice * 10 / 8 + 100),
                1 => format!("go wtime {} btime {} movestogo 4", slice * 4 * 10 / 8 + 100, slice * 4 * 10 / 8 + 100),
                _ => format!("go wtime {} btime {}", slice * 30 * 10 / 8 + 100, slice * 30 * 10 / 8 + 100),
            };
            let plan = plan_ms(&go, p.stm == Color::White);
            st.eval();
            st.sample(|| json!({"position": ptext, "go": go, "follow": null, "options": 0}));
            C08_OPTIONS.with(|x| x.set(0));
            let d = c08_once(&ptext, &p, &go, plan, None, st)?;
            latency_rule(d, plan, false, || c08_once(&ptext, &p, &go, plan, None, &mut Stats::new())).map_err(|m| format!("{} [{} ; {}]", m, ptext, go))?;
            st.nontrivial(fp(&(&ptext, &go)));
            Ok(())
        },
        |(walk, extra, form, lat, kind)| {
            let ps = PosSpec { walk: walk.clone(), form: 1 };
            let swapped = if *kind < 2 { build_lattice_with_mate(lat.0, lat.1, lat.2, &lat.3, lat.4).map(|q| (format!("position fen {}", q.fen()), q)) } else { None };
            match swapped.or_else(|| position_text(&ps)) {
                Some((ptext, _)) => {
                    let slice = 6_000 + *extra as u64;
                    let go = match form {
                        0 => format!("go wtime {} btime {} movestogo 1", slice * 10 / 8 + 100, slice * 10 / 8 + 100),
                        1 => format!("go wtime {} btime {} movestogo 4", slice * 4 * 10 / 8 + 100, slice * 4 * 10 / 8 + 100),
                        _ => format!("go wtime {} btime {}", slice * 30 * 10 / 8 + 100, slice * 30 * 10 / 8 + 100),
                    };
                    json!({"position": ptext, "go": go, "follow": null, "options": 0})
                }
                None => json!({"position": null}),
            }
        },
    );
    ctx.workers = saved;
}
pub fn replay_c08(case: &Value) -> CaseResult {
    let ptext = case.get("position").and_then(|x| x.as_str()).ok_or("no position")?;
    let go = case.get("go").and_then(|x| x.as_str()).ok_or("no go")?;
    let p = position_from_text(ptext)?;
    let plan = plan_ms(go, p.stm == Color::White);
    let follow = case.get("follow").and_then(|x| x.as_str()).and_then(|f| position_from_text(f).ok().map(|q| (f.to_string(), q)));
    C08_OPTIONS.with(|x| x.set(case.get("options").and_then(|x| x.as_u64()).unwrap_or(0) as u8));
    let d = c08_once(ptext, &p, go, plan, follow.as_ref(), &mut Stats::new())?;
    latency_rule(d, plan, false, || c08_once(ptext, &p, go, plan, follow.as_ref(), &mut Stats::new()))
}

/// C09 timed part: sessions of 1-3 go commands (later ones may omit fields the earlier ones gave);
/// each measured delay must lie in [plan - 3 ms, plan + 500 ms], plan from that go command alone
#[derive(Debug, Clone)]
pub struct Timed9 {
    pub pos: PosSpec,
    pub gos: Vec<GoSpec>,
}
fn c09_once(ptext: &str, p0: &Pos, gos: &[String], upto: usize) -> Result<(f64, u64), String> {
    let mut e = Engine::spawn()?;
    e.handshake()?;
    e.send(ptext);
    let mut p = p0.clone();
    let mut last = (0.0, 0);
    for (i, go) in gos.iter().enumerate().take(upto + 1) {
        if p.legal_moves().is_empty() {
            break;
        }
        let plan = plan_ms(go, p.stm == Color::White);
        // in a third of the measurements the GUI stays silent for 120 ms before `go`: the slice
        // starts when the go command arrives, not when the previous command was dealt with
        if fp(&(ptext, i, go)) % 3 == 0 {
            std::thread::sleep(Duration::from_millis(120));
        }
        let ans = do_go(&mut e, go, plan)?;
        let m = check_bestmove(&ans.bestmove.unwrap(), &p)?;
        p = p.apply(&m);
        if i == upto {
            last = (ans.delay_ms, plan);
        }
    }
    e.send("quit");
    Ok(last)
}
fn timed9_texts(c: &Timed9) -> Option<(String, Pos, Vec<String>)> {
    let (ptext, p) = position_text(&c.pos)?;
    let mut white = p.stm == Color::White;
    let mut gos = vec![];
    for g in &c.gos {
        gos.push(go_text(g, white));
        white = !white;
    }
    Some((ptext, p, gos))
}
pub fn c09_timed_case(c: &Timed9, st: &mut Stats) -> CaseResult {
    let Some((ptext, p, gos)) = timed9_texts(c) else { return Ok(()) };
    if p.legal_moves().is_empty() {
        return Ok(());
    }
    // walk the session once, judging every go; a miss is re-measured by replaying the session prefix
    let mut e = Engine::spawn()?;
    e.handshake()?;
    e.send(&ptext);
    let mut q = p.clone();
    for (i, go) in gos.iter().enumerate() {
        if q.legal_moves().is_empty() {
            break;
        }
        let white = q.stm == Color::White;
        let plan = plan_ms(go, white);
        st.eval();
        // same rule as in c09_once: a third of the gos come after 120 ms of silence
        if fp(&(ptext.as_str(), i, go)) % 3 == 0 {
            std::thread::sleep(Duration::from_millis(120));
            st.label("go_after_120_ms_of_silence");
        }
        let ans = do_go(&mut e, go, plan).map_err(|m| format!("{} [{} ; go #{}]", m, ptext, i + 1))?;
        let m = check_bestmove(&ans.bestmove.clone().unwrap(), &q).map_err(|m| format!("{} [{}]", m, ptext))?;
        latency_rule(ans.delay_ms, plan, true, || c09_once(&ptext, &p, &gos, i).map(|x| x.0)).map_err(|m| format!("{} [{} ; go #{} of {:?}]", m, ptext, i + 1, gos))?;
        let toks: Vec<&str> = go.split(' ').collect();
        let gt = verif_parse_go_command(&toks);
        let lopsided = (gt.wtime.max(1) as f64) > 2.0 * (gt.btime.max(1) as f64) || (gt.btime.max(1) as f64) > 2.0 * (gt.wtime.max(1) as f64);
        if lopsided || i > 0 {
            st.nontrivial(fp(&(&ptext, i, go)));
        }
        if i > 0 {
            st.label("later_go_of_a_session");
        }
        if plan > 0 {
            st.label("timed_go");
        }
        q = q.apply(&m);
    }
    e.send("quit");
    Ok(())
}
pub fn run_c09_timed(ctx: &mut Ctx) {
    let t = ctx.tier;
    ctx.max_shrink_iters = 8;
    let saved = ctx.workers;
    ctx.workers = 8;
    run_prop(
        ctx,
        "measured_delay_vs_plan_real_binary",
        || (pos_spec_strategy(), proptest::collection::vec(go_spec_strategy(300), 1..4)).prop_map(|(pos, gos)| Timed9 { pos, gos }),
        t.pick(650, 25_000),
        |c, st| {
            st.sample(|| json!({"position": timed9_texts(c).map(|x| x.0), "gos": timed9_texts(c).map(|x| x.2)}));
            c09_timed_case(c, st)
        },
        |c| json!({"timed": true, "position": timed9_texts(c).map(|x| x.0), "gos": timed9_texts(c).map(|x| x.2)}),
    );
    ctx.workers = saved;
}
pub fn replay_c09_timed(case: &Value) -> CaseResult {
    let ptext = case.get("position").and_then(|x| x.as_str()).ok_or("no position")?;
    let gos: Vec<String> = case.get("gos").and_then(|x| x.as_array()).map(|a| a.iter().filter_map(|v| v.as_str().map(|s| s.to_string())).collect()).unwrap_or_default();
    let p = position_from_text(ptext)?;
    for i in 0..gos.len() {
        let (d, plan) = c09_once(ptext, &p, &gos, i)?;
        latency_rule(d, plan, true, || c09_once(ptext, &p, &gos, i).map(|x| x.0)).map_err(|m| format!("{} [go #{}]", m, i + 1))?;
    }
    Ok(())
}

// ---------------------------------------------------------------------------------------------
// C16: replies depend only on the current position command

#[derive(Debug, Clone)]
pub enum PrefixCmd {
    Position(RepSpec),
    Go(GoSpec),
    NewGame,
    SetOption(u8),
    IsReady,
    Ignorable(u8),
}
#[derive(Debug, Clone)]
pub struct RepSpec {
    pub walk: WalkRecipe,
    pub cycles: u8,
    pub form: u8,
}
thread_local! { static REPLAY_START: std::cell::RefCell<Option<(String, Pos)>> = std::cell::RefCell::new(None); }
fn rep_text(r: &RepSpec) -> Option<(String, Pos)> {
    if let Some(x) = REPLAY_START.with(|s| s.borrow().clone()) {
        return Some(x);
    }
    let (start, mut moves) = play_walk(&r.walk)?;
    let mut p = start.clone();
    for m in &moves {
        p = p.apply(m);
    }
    if r.cycles > 0 {
        if let Some(c) = find_cycle(&p, 7919, 39_193) {
            for _ in 0..r.cycles {
                moves.extend(c);
            }
        }
    }
    let names: Vec<String> = moves.iter().map(mv_name).collect();
    let text = if names.is_empty() || r.form % 4 == 0 {
        // bare position (no move list)
        format!("position fen {}", p.fen())
    } else if start == Pos::startpos() {
        format!("position startpos moves {}", names.join(" "))
    } else {
        format!("position fen {} moves {}", start.fen(), names.join(" "))
    };
    Some((text, p))
}
fn rep_spec_strategy() -> impl Strategy<Value = RepSpec> {
    // near-mate placements and heavy nets: tiny trees with short forced mates - a timed search there
    // runs through all its iterations and ends of its own accord, long before the clock (a path of its
    // own through the engine: the search thread exits normally, the I/O thread keeps waiting)
    let tiny = (prop_oneof![2 => placement_near_mate(), 1 => placement_heavy_net()].prop_map(Start::Placement), proptest::collection::vec(any::<u16>(), 0..3)).prop_map(|(start, choices)| WalkRecipe { start, choices });
    (prop_oneof![3 => gamelike_walk_strategy(40), 2 => endgame_walk_strategy(20), 2 => tiny], prop_oneof![2 => Just(0u8), 2 => 1u8..4], 0u8..4).prop_map(|(walk, cycles, form)| RepSpec { walk, cycles, form })
}
const IGNORABLE: [&str; 8] = ["", "   ", "stop", "ponderhit", "debug on", "uci", "hello world", "register later"];
const OPTIONS: [&str; 8] = ["setoption name DebugLogLevel value None", "setoption name DebugLogLevel value Info", "setoption name Hash value 16", "setoption name Clear Hash", "setoption", "setoption name Ponder value true", "setoption name UCI_AnalyseMode", "setoption name DebugLogLevel"];
fn prefix_cmd_strategy() -> impl Strategy<Value = PrefixCmd> {
    prop_oneof![
        5 => rep_spec_strategy().prop_map(PrefixCmd::Position),
        5 => go_spec_strategy(30).prop_map(PrefixCmd::Go),
        1 => Just(PrefixCmd::NewGame),
        2 => (0u8..8).prop_map(PrefixCmd::SetOption),
        1 => Just(PrefixCmd::IsReady),
        1 => (0u8..8).prop_map(PrefixCmd::Ignorable),
    ]
}
#[derive(Debug, Clone)]
pub struct C16Case {
    pub prefix: Vec<PrefixCmd>,
    pub probe: RepSpec,
    pub slice: u16,
    /// false: the probe follows the earlier traffic immediately (no quiescing pause)
    pub settle: bool,
    /// 0: probe differs from the prefix positions; 1: the probe position line also occurs in the prefix
    pub probe_in_prefix: bool,
}
/// the observable signature of a probe: zero-allowance bestmove, and the timed run's sequence of
/// (depth, nodes, score, first pv move)
#[derive(Debug, Clone, PartialEq)]
pub struct ProbeSig {
    pub zero: String,
    pub timed: Vec<(u32, u64, String, String)>,
}
fn info_sig(lines: &[String]) -> Vec<(u32, u64, String, String)> {
    lines.iter().filter_map(|l| parse_info(l).ok()).map(|i| (i.depth, i.nodes, format!("{:?}", i.score), i.pv[0].clone())).collect()
}
fn run_probe(e: &mut Engine, ptext: &str, p: &Pos, slice: u16) -> Result<ProbeSig, String> {
    let white = p.stm == Color::White;
    e.send(ptext);
    let a = do_go(e, "go", 0)?;
    let zero = a.bestmove.unwrap_or_default();
    e.settle(5);
    e.send(ptext);
    let clock = 100 + (slice as u64) * 30 * 10 / 8 + 1;
    let go = if white { format!("go wtime {} btime 3000", clock) } else { format!("go btime {} wtime 3000", clock) };
    let plan = plan_ms(&go, white);
    let b = do_go(e, &go, plan)?;
    Ok(ProbeSig { zero, timed: info_sig(&b.infos) })
}
fn common_prefix_equal(a: &[(u32, u64, String, String)], b: &[(u32, u64, String, String)]) -> Option<usize> {
    let n = a.len().min(b.len());
    (0..n).find(|&i| a[i] != b[i])
}
fn prefix_texts(c: &C16Case) -> Vec<(String, Option<Pos>)> {
    let mut out = vec![];
    let mut cur: Option<Pos> = Some(Pos::startpos());
    for cmd in &c.prefix {
        match cmd {
            PrefixCmd::Position(r) => {
                if let Some((t, p)) = rep_text(r) {
                    if !p.legal_moves().is_empty() {
                        cur = Some(p.clone());
                        out.push((t, Some(p)));
                    }
                }
            }
            PrefixCmd::Go(g) => {
                if let Some(p) = &cur {
                    out.push((go_text(g, p.stm == Color::White), None));
                    cur = None; // after a go the board is the engine's; a new position must follow before the next go
                }
            }
            PrefixCmd::NewGame => out.push(("ucinewgame".into(), None)),
            PrefixCmd::SetOption(i) => out.push((OPTIONS[*i as usize % 8].into(), None)),
            PrefixCmd::IsReady => out.push(("isready".into(), None)),
            PrefixCmd::Ignorable(i) => out.push((IGNORABLE[*i as usize % 8].into(), None)),
        }
    }
    out
}
/// A difference must reproduce: the comparison is between deterministic searches, but the real
/// binary does not join its search thread, so a late `info` line of an earlier search can in
/// principle land in a later search's output. The session is made quiescent before each probe and
/// a mismatch is only reported when a complete second attempt with fresh processes fails too.
pub fn c16_case(c: &C16Case, st: &mut Stats) -> CaseResult {
    match c16_case_once(c, st) {
        Ok(()) => Ok(()),
        Err(first) => {
            // one more complete attempt (two more when the session was not quiesced)
            for _ in 0..(if c.settle { 1 } else { 2 }) {
                let mut scratch = Stats::new();
                if c16_case_once(c, &mut scratch).is_ok() {
                    st.label("mismatch_not_reproduced_on_a_further_attempt");
                    return Ok(());
                }
            }
            Err(first)
        }
    }
}
fn c16_case_once(c: &C16Case, st: &mut Stats) -> CaseResult {
    let Some((mut ptext, mut p)) = rep_text(&c.probe) else { return Ok(()) };
    // one probe in eight is the shortest position command there is, the bare `position startpos`
    // (no move list) - after earlier traffic that left the engine on some other board
    if c.slice % 8 == 3 && REPLAY_START.with(|s| s.borrow().is_none()) {
        ptext = "position startpos".to_string();
        p = Pos::startpos();
        st.label("probe_is_the_bare_startpos_command");
    }
    if p.legal_moves().is_empty() {
        return Ok(());
    }
    st.eval();
    let slice = 40 + c.slice % 80;
    // fresh engine: only the probe
    let mut fresh = Engine::spawn()?;
    fresh.handshake()?;
    let f = run_probe(&mut fresh, &ptext, &p, slice).map_err(|m| format!("fresh engine: {} [{}]", m, ptext))?;
    fresh.send("quit");
    // session engine: prefix traffic, then the probe twice
    let mut e = Engine::spawn()?;
    e.handshake()?;
    let mut texts = prefix_texts(c);
    if c.probe_in_prefix {
        // the probe's own position line followed by a go, somewhere in the prefix
        let at = texts.len() / 2;
        texts.insert(at, (ptext.clone(), Some(p.clone())));
        texts.insert(at + 1, ("go".into(), None));
    }
    let mut had_go = false;
    let mut had_rep = false;
    let mut awaiting_position = false;
    for (t, pos) in &texts {
        if t.starts_with("go") {
            if awaiting_position {
                continue;
            }
            // a go needs a non-terminal current position; answered before going on
            let (_, ok) = {
                e.send(t);
                e.read_until(|l| l.starts_with("bestmove"), Duration::from_millis(HARD_WAIT_MS))
            };
            if !ok {
                return Err(format!("a go of the prefix session was not answered ({})", e.context()));
            }
            had_go = true;
            awaiting_position = true;
        } else if t == "isready" {
            e.isready(Duration::from_secs(5))?;
        } else {
            if pos.is_some() {
                awaiting_position = false;
                if t.contains(" moves ") && t.split(' ').count() > 14 {
                    had_rep = true;
                }
            }
            e.send(t);
        }
    }
    e.isready(Duration::from_secs(5))?;
    if c.settle {
        e.settle(60);
    } else {
        st.label("probe_follows_traffic_without_pause");
    }
    let s1 = run_probe(&mut e, &ptext, &p, slice).map_err(|m| format!("after {} commands of other traffic: {} [{}]", texts.len(), m, ptext))?;
    if c.settle {
        e.settle(40);
    }
    let s2 = run_probe(&mut e, &ptext, &p, slice).map_err(|m| format!("repeated probe: {} [{}]", m, ptext))?;
    let session: Vec<String> = texts.iter().map(|x| x.0.clone()).collect();
    for (name, s) in [("after the earlier traffic", &s1), ("repeated", &s2)] {
        if s.zero != f.zero {
            return Err(format!("zero-allowance reply to `{}` + go is {:?} {} but {:?} from a fresh engine; earlier traffic: {:?}", ptext, s.zero, name, f.zero, session));
        }
        if let Some(i) = common_prefix_equal(&s.timed, &f.timed) {
            return Err(format!("timed search of `{}` {} reports improvement #{} as {:?} but a fresh engine reports {:?}; earlier traffic: {:?}", ptext, name, i, s.timed[i], f.timed[i], session));
        }
    }
    if let Some(i) = common_prefix_equal(&s1.timed, &s2.timed) {
        return Err(format!("repeating `{}` + go gives a different improvement #{}: {:?} vs {:?}", ptext, i, s1.timed[i], s2.timed[i]));
    }
    e.send("quit");
    if had_go {
        st.label("prefix_with_go");
    }
    if had_rep {
        st.label("prefix_with_long_move_list");
    }
    if c.probe_in_prefix {
        st.label("probe_position_already_used_in_prefix");
    }
    if !ptext.contains(" moves ") {
        st.label("probe_without_move_list");
    }
    if had_go && (had_rep || c.probe_in_prefix) {
        st.nontrivial(fp(&(&session, &ptext)));
    }
    Ok(())
}
fn c16_json(c: &C16Case) -> Value {
    let mut texts: Vec<String> = prefix_texts(c).into_iter().map(|x| x.0).collect();
    let probe = if c.slice % 8 == 3 { Some("position startpos".to_string()) } else { rep_text(&c.probe).map(|x| x.0) };
    if c.probe_in_prefix {
        if let Some(p) = &probe {
            let at = texts.len() / 2;
            texts.insert(at, p.clone());
            texts.insert(at + 1, "go".into());
        }
    }
    json!({"prefix": texts, "probe": probe, "slice": 40 + c.slice % 80, "settle": c.settle})
}
pub fn run_c16(ctx: &mut Ctx) {
    let t = ctx.tier;
    ctx.max_shrink_iters = 24;
    let saved = ctx.workers;
    ctx.workers = 8;
    run_prop(
        ctx,
        "probe_after_arbitrary_traffic_vs_fresh_engine",
        || (proptest::collection::vec(prefix_cmd_strategy(), 0..25), rep_spec_strategy(), any::<u16>(), prop_oneof![2 => Just(false), 1 => Just(true)], prop_oneof![2 => Just(true), 1 => Just(false)]).prop_map(|(prefix, probe, slice, probe_in_prefix, settle)| C16Case { prefix, probe, slice, probe_in_prefix, settle }),
        t.pick(440, 8_000),
        |c, st| {
            st.sample(|| c16_json(c));
            c16_case(c, st)
        },
        c16_json,
    );
    ctx.workers = saved;
}
/// Game continuation: the normal flow of a game. The engine searches position P with a real slice;
/// the game then continues with the engine's move and the reply it expected (second move of its last
/// pv, when legal), and the GUI sends `position P moves b r` + go. The reply to that probe must be
/// that of a fresh engine: nothing learnt or left over from the previous search may show.
#[derive(Debug, Clone)]
pub struct ContinuationCase {
    pub pos: RepSpec,
    pub slice: u16,
    pub plies: u8,
}
fn continuation_once(c: &ContinuationCase, st: &mut Stats) -> CaseResult {
    let Some((mut ptext, mut p)) = rep_text(&c.pos) else { return Ok(()) };
    if p.legal_moves().is_empty() {
        return Ok(());
    }
    let mut e = Engine::spawn()?;
    e.handshake()?;
    for round in 0..(1 + c.plies % 3) {
        if p.legal_moves().is_empty() {
            break;
        }
        let white = p.stm == Color::White;
        let clock = 100 + (30 + (c.slice % 60) as u64) * 30 * 10 / 8 + 1;
        let go = if white { format!("go wtime {} btime 3000", clock) } else { format!("go btime {} wtime 3000", clock) };
        e.send(&ptext);
        let a = do_go(&mut e, &go, plan_ms(&go, white))?;
        let Ok(b) = check_bestmove(&a.bestmove.clone().unwrap_or_default(), &p) else { return Ok(()) }; // C03's subject
        let after = p.apply(&b);
        // the expected reply: second move of the last pv whose first move is the move played
        let expected = a.infos.iter().rev().filter_map(|l| parse_info(l).ok()).find(|i| i.pv.len() >= 2 && parse_mv(&i.pv[0]).map(|m| m.from == b.from && m.to == b.to).unwrap_or(false)).and_then(|i| parse_mv(&i.pv[1]));
        let legal = after.legal_moves();
        let reply = expected.and_then(|x| legal.iter().find(|l| l.from == x.from && l.to == x.to).cloned()).or_else(|| legal.first().cloned());
        let Some(r) = reply else { break };
        if expected.map(|x| x.from == r.from && x.to == r.to).unwrap_or(false) {
            st.label("game_followed_the_expected_reply");
        }
        let next = after.apply(&r);
        let sep = if ptext.contains(" moves ") { " " } else { " moves " };
        ptext = format!("{}{}{} {}", ptext, sep, mv_name(&b), mv_name(&r));
        p = next;
        if p.legal_moves().is_empty() {
            break;
        }
        st.eval();
        // the probe in this session vs a fresh engine
        let slice = 40 + c.slice % 80;
        let s1 = run_probe(&mut e, &ptext, &p, slice)?;
        let mut fresh = Engine::spawn()?;
        fresh.handshake()?;
        let f = run_probe(&mut fresh, &ptext, &p, slice)?;
        fresh.send("quit");
        if s1.zero != f.zero {
            return Err(format!("after the engine searched the earlier positions of this game, its zero-allowance reply to `{}` + go is {:?} but a fresh engine answers {:?} (round {})", ptext, s1.zero, f.zero, round + 1));
        }
        if let Some(i) = common_prefix_equal(&s1.timed, &f.timed) {
            return Err(format!("after the engine searched the earlier positions of this game, its timed search of `{}` reports improvement #{} as {:?} but a fresh engine reports {:?}", ptext, i, s1.timed[i], f.timed[i]));
        }
        st.nontrivial(fp(&(&ptext, round)));
        e.settle(30);
    }
    e.send("quit");
    Ok(())
}
pub fn continuation_case(c: &ContinuationCase, st: &mut Stats) -> CaseResult {
    match continuation_once(c, st) {
        Ok(()) => Ok(()),
        Err(first) => {
            if continuation_once(c, &mut Stats::new()).is_ok() {
                st.label("mismatch_not_reproduced_on_a_further_attempt");
                Ok(())
            } else {
                Err(first)
            }
        }
    }
}
pub fn run_c16_continuation(ctx: &mut Ctx) {
    let t = ctx.tier;
    let saved = ctx.workers;
    ctx.workers = 8;
    run_prop(
        ctx,
        "game_continuation_vs_fresh_engine",
        || (rep_spec_strategy(), any::<u16>(), any::<u8>()).prop_map(|(pos, slice, plies)| ContinuationCase { pos, slice, plies }),
        t.pick(240, 3_000),
        |c, st| {
            st.sample(|| json!({"continuation": true, "start": rep_text(&c.pos).map(|x| x.0), "slice": c.slice, "plies": c.plies}));
            continuation_case(c, st)
        },
        |c| json!({"continuation": true, "start": rep_text(&c.pos).map(|x| x.0), "slice": c.slice, "plies": c.plies}),
    );
    ctx.workers = saved;
}

/// C16 with MANY searches between two probes of the same position: a probe, then 127 ... 512
/// zero-allowance searches of other positions, then the probe again - against a fresh process.
/// Session state that ages, counts or wraps (an 8-bit generation counter, a table that fills up)
/// needs a specific number of searches in between; the counts straddle the 8-bit and 9-bit limits.
#[derive(Debug, Clone)]
pub struct ManySearches {
    pub pos: RepSpec,
    pub count: u16,
    pub slice: u16,
    pub timed_fillers: bool,
}
fn many_once(c: &ManySearches, st: &mut Stats) -> CaseResult {
    let Some((ptext, p)) = rep_text(&c.pos) else { return Ok(()) };
    if p.legal_moves().is_empty() {
        return Ok(());
    }
    let slice = 30 + c.slice % 40;
    let mut f = Engine::spawn()?;
    f.handshake()?;
    let fresh = run_probe(&mut f, &ptext, &p, slice)?;
    f.send("quit");
    let mut e = Engine::spawn()?;
    e.handshake()?;
    let first = run_probe(&mut e, &ptext, &p, slice)?;
    let fillers = ["position startpos", "position startpos moves e2e4", "position fen 8/8/8/4k3/8/8/4P3/4K3 w - - 0 1", "position startpos moves d2d4 d7d5 c2c4"];
    // run_probe itself is two searches (zero allowance + timed); the fillers bring the number of
    // searches between the two timed probes to `count`
    let n = (c.count as usize).saturating_sub(1);
    for i in 0..n {
        e.send(fillers[i % fillers.len()]);
        e.send("go");
        if i % 64 == 63 || i + 1 == n {
            // fence now and then so that the pipe never fills up
            e.isready(Duration::from_secs(20)).map_err(|m| format!("during {} zero-allowance searches: {}", n, m))?;
            e.drain();
        }
    }
    if c.timed_fillers {
        e.send(fillers[1]);
        do_go(&mut e, "go wtime 700 btime 700", 16)?;
        // ... and a timed search that ends of its own accord (short forced mate: all iterations
        // finish within a few milliseconds), directly followed by the TIMED probe - whatever a search
        // that ran to its natural end leaves behind meets the next timed search first
        let tiny = ["position fen 6k1/8/5K2/8/8/8/8/1Q6 w - - 0 1", "position fen 7k/8/5K2/8/8/8/8/6R1 w - - 0 1", "position fen k7/8/1K6/8/8/8/8/7Q w - - 0 1", "position fen 8/8/8/8/8/2k5/8/K1q5 b - - 0 1"][(c.count as usize) % 4];
        e.send(tiny);
        do_go(&mut e, "go wtime 2600 btime 2600", 67)?;
        e.settle(20);
        let white = p.stm == Color::White;
        e.send(&ptext);
        let clock = 100 + (slice as u64) * 30 * 10 / 8 + 1;
        let go = if white { format!("go wtime {} btime 3000", clock) } else { format!("go btime {} wtime 3000", clock) };
        let b = do_go(&mut e, &go, plan_ms(&go, white))?;
        let timed_first = info_sig(&b.infos);
        if let Some(i) = common_prefix_equal(&timed_first, &fresh.timed) {
            return Err(format!("timed probe right after a search that ran to its natural end (`{}`): improvement #{} is {:?} but a fresh engine reports {:?} [{}]", tiny, i, timed_first[i], fresh.timed[i], ptext));
        }
        st.label("timed_probe_right_after_a_search_that_ended_by_itself");
        // the same with a probe RELATED to the finished search (same material, one man shifted or a
        // pawn added): moves remembered from the finished search are legal here
        let related = [
            ("position fen 6k1/8/5K2/8/8/8/8/1Q6 w - - 0 1", "position fen 6k1/8/4K3/8/8/8/3P4/1Q6 w - - 0 1"),
            ("position fen 7k/8/5K2/8/8/8/8/6R1 w - - 0 1", "position fen 7k/8/4K3/8/8/8/1P6/6R1 w - - 0 1"),
            ("position fen k7/8/1K6/8/8/8/8/7Q w - - 0 1", "position fen k7/8/2K5/8/8/8/5P2/7Q w - - 0 1"),
            ("position fen 8/8/8/8/8/2k5/8/K1q5 b - - 0 1", "position fen 8/8/8/8/8/3k4/6p1/K1q5 b - - 0 1"),
        ][(c.count as usize) % 4];
        let rp = position_from_text(related.1)?;
        let rgo = if rp.stm == Color::White { "go wtime 9100 btime 9100" } else { "go btime 9100 wtime 9100" };
        let mut f2 = Engine::spawn()?;
        f2.handshake()?;
        f2.send(related.1);
        let fr = info_sig(&do_go(&mut f2, rgo, 240)?.infos);
        f2.send("quit");
        e.send(related.0);
        do_go(&mut e, "go wtime 2600 btime 2600", 67)?;
        e.settle(20);
        e.send(related.1);
        let sr = info_sig(&do_go(&mut e, rgo, 240)?.infos);
        if let Some(i) = common_prefix_equal(&sr, &fr) {
            return Err(format!("`{}` + `{}` right after a timed search of the related `{}` that ran to its natural end: improvement #{} is {:?} but a fresh engine reports {:?}", related.1, rgo, related.0, i, sr[i], fr[i]));
        }
    }
    e.settle(20);
    let again = run_probe(&mut e, &ptext, &p, slice)?;
    st.eval();
    for (name, s) in [("first", &first), ("later", &again)] {
        if s.zero != fresh.zero {
            return Err(format!("{} probe: zero-allowance reply {:?} differs from a fresh engine's {:?} [{} ; {} searches in between]", name, s.zero, fresh.zero, ptext, c.count));
        }
        if let Some(i) = common_prefix_equal(&s.timed, &fresh.timed) {
            return Err(format!("{} probe: improvement #{} is {:?} but a fresh engine reports {:?} [{} ; {} searches of other positions between the two probes]", name, i, s.timed[i], fresh.timed[i], ptext, c.count));
        }
    }
    st.label(&format!("searches_between_probes_{}", if c.count >= 500 { "500_plus" } else if c.count >= 250 { "250_to_260" } else { "120_to_130" }));
    Ok(())
}
pub fn many_case(c: &ManySearches, st: &mut Stats) -> CaseResult {
    match many_once(c, st) {
        Ok(()) => {
            st.nontrivial(fp(&format!("{:?}", c)));
            Ok(())
        }
        Err(first) => {
            if many_once(c, &mut Stats::new()).is_ok() {
                st.label("mismatch_not_reproduced_on_a_further_attempt");
                Ok(())
            } else {
                Err(first)
            }
        }
    }
}
fn many_json(c: &ManySearches) -> Value {
    json!({"many_searches": true, "start": rep_text(&c.pos).map(|x| x.0), "count": c.count, "slice": c.slice, "timed_fillers": c.timed_fillers})
}
pub fn run_c16_many(ctx: &mut Ctx) {
    let t = ctx.tier;
    let saved = ctx.workers;
    ctx.workers = 8;
    ctx.max_shrink_iters = 6;
    run_prop(
        ctx,
        "many_searches_between_two_probes",
        || (rep_spec_strategy(), prop_oneof![4 => 253u16..=259, 1 => 126u16..=130, 1 => 509u16..=515], any::<u16>(), any::<bool>()).prop_map(|(pos, count, slice, timed_fillers)| ManySearches { pos, count, slice, timed_fillers }),
        t.pick(56, 1_200),
        |c, st| {
            st.sample(|| many_json(c));
            many_case(c, st)
        },
        many_json,
    );
    ctx.workers = saved;
}

// ---------------------------------------------------------------------------------------------
// C07, black-box: nothing panics in the two-thread composition

/// One batch of timed searches on the real binary; returns (searches, sessions whose stderr shows a
/// panic, one example line).
fn panic_batch(sessions: usize, seed: u64, workers: usize) -> Result<(u64, u64, Option<String>), String> {
    let fens: Vec<String> = gamelike_indices().into_iter().map(|i| corpus_pos(i).fen()).collect();
    let result: std::sync::Mutex<(u64, u64, Option<String>, Option<String>)> = std::sync::Mutex::new((0, 0, None, None));
    std::thread::scope(|sc| {
        for w in 0..workers {
            let fens = &fens;
            let result = &result;
            sc.spawn(move || {
                let mut i = w;
                while i < sessions {
                    let r = (|| -> Result<(u64, Option<String>), String> {
                        let mut e = Engine::spawn()?;
                        e.handshake()?;
                        let mut n = 0;
                        for j in 0..6u64 {
                            let h = mix(seed ^ ((i as u64) << 8) ^ j);
                            let f = &fens[(h % fens.len() as u64) as usize];
                            let slice = 20 + (h >> 20) % 41;
                            let clock = 100 + slice * 30 * 10 / 8 + 1;
                            e.send(&format!("position fen {}", f));
                            let go = format!("go wtime {} btime {}", clock, clock);
                            let _ = do_go(&mut e, &go, slice)?;
                            n += 1;
                        }
                        e.send("quit");
                        e.wait_exit(Duration::from_secs(2));
                        std::thread::sleep(Duration::from_millis(5));
                        Ok((n, e.panicked()))
                    })();
                    let mut g = result.lock().unwrap();
                    match r {
                        Ok((n, p)) => {
                            g.0 += n;
                            if let Some(line) = p {
                                g.1 += 1;
                                g.2.get_or_insert(line);
                            }
                        }
                        Err(m) => {
                            g.3.get_or_insert(m);
                        }
                    }
                    i += workers;
                }
            });
        }
    });
    let g = result.into_inner().unwrap();
    if let Some(m) = g.3 {
        if m.starts_with("HARNESS:") {
            return Err(m);
        }
    }
    Ok((g.0, g.1, g.2))
}
/// The unchanged engine has a microsecond window in which its search thread can lose the race for
/// the channel and die with a message on stderr (measured: 0 in 1,600 searches); a defect that widens
/// the window shows as a panic in a sizeable share of timed searches. Rule: three or more panicking
/// sessions in a batch, confirmed by three or more in a second batch.
pub fn run_c07_panic_rate(ctx: &mut Ctx) {
    let family = "real_binary_search_thread_survives_timed_searches";
    if family_filtered_out(family) {
        return;
    }
    let sessions = ctx.n(120, 1_500) as usize;
    let mut st = Stats::new();
    match panic_batch(sessions, ctx.seed, 8) {
        Err(m) => ctx.harness_errors.push(format!("{}: {}", family, m)),
        Ok((n, panics, example)) => {
            st.evals(n);
            st.nontrivial_by_construction = n; // every timed search has the deadline race in it
            st.label_n("sessions_with_a_panic_on_stderr", panics);
            st.sample(|| json!({"sessions": sessions, "timed_searches": n, "slices_ms": "20..60"}));
            if panics >= 3 {
                match panic_batch(sessions, ctx.seed ^ 0x5eed, 8) {
                    Ok((n2, p2, _)) if p2 >= 3 => {
                        ctx.violation(family, json!({"stderr_panic_rate": true, "sessions": sessions}), format!("a thread of the real binary panicked in {} of {} sessions of six timed searches (20-60 ms slices), and in {} of {} sessions of a second batch ({} searches): {}", panics, sessions, p2, sessions, n + n2, example.unwrap_or_default()));
                    }
                    _ => st.label("panics_not_confirmed_by_a_second_batch"),
                }
            }
        }
    }
    ctx.family_done(family, st, json!({"driver": "enumeration of generated sessions (statistical rule)", "sessions": sessions}));
}
/// C07 with the real clock and an allowance the virtual clock cannot express: `go` with a clock that
/// makes the slice 2^64 ms and more. Whatever the engine reports in the first half second must be a
/// prefix of what a direct search with a large (virtual) allowance reports - "giving the search a
/// larger allowance never changes the sequence of improvements, it only extends it".
pub fn c07_huge_allowance(r: &crate::props::search::RepRecipe, which: u8, st: &mut Stats) -> CaseResult {
    let Some((start, moves)) = crate::props::search::rep_moves(r) else { return Ok(()) };
    let Ok(case) = crate::props::search::make_case(&start, &moves) else { return Ok(()) };
    if case.root.legal_moves().is_empty() {
        return Ok(());
    }
    st.eval();
    let names: Vec<String> = moves.iter().map(mv_name).collect();
    let ptext = if names.is_empty() { format!("position fen {}", start.fen()) } else { format!("position fen {} moves {}", start.fen(), names.join(" ")) };
    let clocks = ["691752902764108120700", "691752902764108128200", "691752902764108158200", "18446744073709551716000", "2126764793255865396646091296448555"];
    let c = clocks[which as usize % clocks.len()];
    let go = if case.root.stm == Color::White { format!("go wtime {} btime 1000", c) } else { format!("go btime {} wtime 1000", c) };
    let once = || -> CaseResult {
        let mut e = Engine::spawn()?;
        e.handshake()?;
        e.send(&ptext);
        e.send(&go);
        let (lines, _) = e.read_until(|l| l.starts_with("bestmove"), Duration::from_millis(400));
        drop(e); // killed: the search would run for millions of years
        let infos: Vec<String> = lines.iter().map(|x| x.1.clone()).filter(|l| l.starts_with("info")).collect();
        let bb = info_sig(&infos);
        let mut budget = 8_000u64;
        loop {
            let run = crate::props::search::run_search(&case.board, &case.table, budget);
            if run.panic.is_some() {
                return Ok(());
            }
            let raw: Vec<String> = run.lines.iter().map(|x| x.1.clone()).collect();
            let direct = info_sig(&raw);
            if let Some(i) = common_prefix_equal(&bb, &direct) {
                return Err(format!("`{}` + `{}` (an allowance of 2^64 ms or more): improvement #{} reported by the real binary is {:?} but a direct search with a large allowance reports {:?} - the larger allowance changed the sequence", ptext, go, i, bb[i], direct[i]));
            }
            if direct.len() >= bb.len() || run.queries < budget || budget > 60_000_000 {
                break;
            }
            budget *= 4;
        }
        Ok(())
    };
    match once() {
        Ok(()) => {
            st.nontrivial(fp(&(&ptext, &go)));
            Ok(())
        }
        Err(first) => {
            if once().is_ok() {
                st.label("mismatch_not_reproduced_on_a_further_attempt");
                Ok(())
            } else {
                Err(first)
            }
        }
    }
}
pub fn run_c07_huge_allowance(ctx: &mut Ctx) {
    let t = ctx.tier;
    let saved = (ctx.workers, ctx.max_shrink_iters);
    ctx.workers = 8;
    ctx.max_shrink_iters = 8;
    run_prop(
        ctx,
        "real_clock_allowance_of_2_pow_64_ms_vs_direct_search",
        || (crate::props::search::rep_strategy(30, true), any::<u8>()),
        t.pick(80, 1_000),
        |(r, which), st| {
            st.sample(|| json!({"huge_allowance": true, "game": crate::props::search::rep_json(r), "which": which}));
            c07_huge_allowance(r, *which, st)
        },
        |(r, which)| json!({"huge_allowance": true, "game": crate::props::search::rep_json(r), "which": which}),
    );
    ctx.workers = saved.0;
    ctx.max_shrink_iters = saved.1;
}
pub fn replay_c07_huge(case: &Value) -> CaseResult {
    let g = case.get("game").ok_or("no game")?;
    let (start, moves) = parse_game_case(g)?;
    let which = case.get("which").and_then(|x| x.as_u64()).unwrap_or(0) as u8;
    REPLAY_GAME.with(|r| *r.borrow_mut() = Some((start, moves)));
    let dummy = crate::props::search::RepRecipe { walk: WalkRecipe { start: Start::Corpus(0), choices: vec![] }, cycles: 0, c1: 0, c2: 0, tail_cut: 0 };
    let r = c07_huge_allowance(&dummy, which, &mut Stats::new());
    REPLAY_GAME.with(|r| *r.borrow_mut() = None);
    r
}

pub fn replay_c07_panic_rate(case: &Value) -> CaseResult {
    let sessions = case.get("sessions").and_then(|x| x.as_u64()).unwrap_or(120) as usize;
    let (n, p, ex) = panic_batch(sessions, 1, 8)?;
    if p >= 3 {
        Err(format!("{} of {} sessions ({} timed searches) show a panic on stderr: {}", p, sessions, n, ex.unwrap_or_default()))
    } else {
        Ok(())
    }
}

// ---------------------------------------------------------------------------------------------
// C10, black-box: the search started by `go` sees the whole game record

/// The real binary's `position ... moves ...` + timed `go` against a DIRECT call of the search on the
/// board and repetition record the position handler produces (in-process, virtual clock): the
/// sequences of (depth, nodes, score, first pv move) must agree on their common prefix. Anything the
/// command loop changes on the way from the record to the search thread (a filtered or stale record,
/// a different root) shows as a difference in nodes or score.
pub fn c10_uci_vs_direct(r: &crate::props::search::RepRecipe, slice: u16, st: &mut Stats) -> CaseResult {
    let Some((start, moves)) = crate::props::search::rep_moves(r) else { return Ok(()) };
    let Ok(case) = crate::props::search::make_case(&start, &moves) else { return Ok(()) };
    if case.root.legal_moves().is_empty() {
        return Ok(());
    }
    st.eval();
    let names: Vec<String> = moves.iter().map(mv_name).collect();
    let ptext = if names.is_empty() { format!("position fen {}", start.fen()) } else { format!("position fen {} moves {}", start.fen(), names.join(" ")) };
    let white = case.root.stm == Color::White;
    let clock = 100 + (30 + (slice % 70) as u64) * 30 * 10 / 8 + 1;
    let go = if white { format!("go wtime {} btime 3000", clock) } else { format!("go btime {} wtime 3000", clock) };
    let once = |st: &mut Stats| -> CaseResult {
        let mut e = Engine::spawn()?;
        e.handshake()?;
        e.send(&ptext);
        let a = do_go(&mut e, &go, plan_ms(&go, white))?;
        e.send("quit");
        let bb = info_sig(&a.infos);
        // direct search far enough to cover what the binary reported
        let mut budget = 4_000u64;
        loop {
            let run = crate::props::search::run_search(&case.board, &case.table, budget);
            if run.panic.is_some() {
                return Ok(()); // C07's subject
            }
            let lines: Vec<String> = run.lines.iter().map(|x| x.1.clone()).collect();
            let direct = info_sig(&lines);
            if let Some(i) = common_prefix_equal(&bb, &direct) {
                return Err(format!("`{}` + `{}`: improvement #{} of the real binary is {:?} but a direct search on the same board and repetition record reports {:?}", ptext, go, i, bb[i], direct[i]));
            }
            if direct.len() >= bb.len() || run.queries < budget || budget > 40_000_000 {
                break;
            }
            budget *= 4;
        }
        if case.table.table.values().any(|&v| v >= 2) {
            st.label("history_with_a_repeated_position");
        }
        st.label("sessions_compared");
        Ok(())
    };
    match once(st) {
        Ok(()) => {
            st.nontrivial(fp(&(&ptext, &go)));
            Ok(())
        }
        Err(first) => {
            // a late line of the search thread can trail into... nothing here (fresh process per run),
            // but keep the reproduction rule of the other differential checks
            if once(&mut Stats::new()).is_ok() {
                st.label("mismatch_not_reproduced_on_a_further_attempt");
                Ok(())
            } else {
                Err(first)
            }
        }
    }
}
/// C10, second `go` of a chain: the game of the `position` command ends with two out-and-back
/// cycles that START with the move the engine answers under a zero allowance (predicted in-process:
/// the first move of its ordering). After `go` (answered with that move) the other, materially lost
/// side is to move and can step into a position that has already occurred twice; a second `go`
/// (timed, no `position` in between) must therefore end every completed depth with a score >= 0 -
/// the record of the game must still be there.
#[derive(Debug, Clone)]
pub struct SecondGo {
    pub walk: WalkRecipe,
    pub sel: u16,
    pub slice: u16,
}
fn man_value(k: Kind) -> i32 {
    match k {
        Kind::Pawn => 100,
        Kind::Knight | Kind::Bishop => 320,
        Kind::Rook => 500,
        Kind::Queen => 900,
        Kind::King => 0,
    }
}
/// (position text, root after the predicted reply, predicted reply, repetition move available there)
pub fn second_go_texts(g: &SecondGo) -> Option<(String, Pos, Move, Move)> {
    let (start, mut moves) = play_walk(&g.walk)?;
    let mut q = start.clone();
    for m in &moves {
        q = q.apply(m);
    }
    if q.ep.is_some() || q.in_check(q.stm) {
        return None;
    }
    // the side to move must be the stronger one by at least a minor piece
    let bal: i32 = q.sq.iter().flatten().map(|&(c, k)| if c == q.stm { man_value(k) } else { -man_value(k) }).sum();
    if bal < 300 {
        return None;
    }
    // the engine's zero-allowance reply at q: the documented fallback, first move of the ordering
    let case = crate::props::search::make_case(&start, &moves).ok()?;
    let run = crate::props::search::run_search(&case.board, &case.table, 0);
    let b = run.sends.first().and_then(|x| desc(x).ok())?;
    let rev = |p: &Pos, m: &Move| p.classify(m) == MoveClass::Quiet && p.sq[m.from as usize].map(|x| x.1) != Some(Kind::Pawn);
    if !rev(&q, &b) {
        return None;
    }
    let p1 = q.apply(&b);
    let mut rs: Vec<Move> = p1.legal_moves().into_iter().filter(|m| rev(&p1, m)).collect();
    rs.sort();
    if rs.is_empty() {
        return None;
    }
    let k0 = (g.sel as usize * rs.len()) >> 16;
    for d in 0..rs.len() {
        let r = rs[(k0 + d) % rs.len()].clone();
        let p2 = p1.apply(&r);
        let bb = Move { from: b.to, to: b.from, promo: None };
        if !p2.legal_moves().contains(&bb) || !rev(&p2, &bb) {
            continue;
        }
        let p3 = p2.apply(&bb);
        let rr = Move { from: r.to, to: r.from, promo: None };
        if !p3.legal_moves().contains(&rr) || !rev(&p3, &rr) {
            continue;
        }
        if p3.apply(&rr) != q {
            continue;
        }
        for _ in 0..2 {
            moves.extend([b.clone(), r.clone(), bb.clone(), rr.clone()]);
        }
        let names: Vec<String> = moves.iter().map(mv_name).collect();
        return Some((format!("position fen {} moves {}", start.fen(), names.join(" ")), p1, b, r));
    }
    None
}
fn second_go_json(g: &SecondGo) -> Value {
    match second_go_texts(g) {
        Some((t, _, b, r)) => json!({"second_go": true, "position": t, "predicted_reply": mv_name(&b), "repetition_move": mv_name(&r), "slice": g.slice}),
        None => json!({"second_go": true, "position": null}),
    }
}
pub fn c10_second_go_run(ptext: &str, predicted: &str, slice: u16, st: &mut Stats) -> CaseResult {
    let p = position_from_text(ptext)?;
    let b = parse_mv(predicted).ok_or("HARNESS: bad predicted move")?;
    let r1 = p.apply(&b);
    let white = r1.stm == Color::White;
    let clock = 100 + (40 + (slice % 60) as u64) * 30 * 10 / 8 + 1;
    let go = if white { format!("go wtime {} btime 3000", clock) } else { format!("go btime {} wtime 3000", clock) };
    let once = || -> Result<Option<String>, String> {
        let mut e = Engine::spawn()?;
        e.handshake()?;
        e.send(ptext);
        let a = do_go(&mut e, "go", 0)?;
        let tok = a.bestmove.as_deref().and_then(bestmove_token).unwrap_or("").to_string();
        if tok != predicted {
            return Ok(None); // the engine answered something else: nothing to judge here (C16 / C03 judge that)
        }
        let a2 = do_go(&mut e, &go, plan_ms(&go, white))?;
        e.send("quit");
        let mut infos = vec![];
        for l in &a2.infos {
            if let Ok(i) = parse_info(l) {
                infos.push(i);
            }
        }
        for (j, i) in infos.iter().enumerate() {
            let completed = j + 1 < infos.len() && infos[j + 1].depth > i.depth;
            if !completed {
                continue;
            }
            let below = match i.score {
                Score::Cp(x) => x < 0,
                Score::Mate(n) => n < 0,
            };
            if below {
                return Ok(Some(format!("`{}` ; `go` (answered {}) ; `{}`: the side to move can step into a position that has occurred twice, but depth {} ends with {:?}", ptext, predicted, go, i.depth, i.sans_time)));
            }
        }
        Ok(Some(String::new()))
    };
    match once()? {
        None => {
            st.label("zero_allowance_reply_differs_from_prediction_skip");
            Ok(())
        }
        Some(m) if m.is_empty() => {
            st.label("second_go_judged");
            Ok(())
        }
        Some(m) => match once()? {
            Some(m2) if !m2.is_empty() => Err(m),
            _ => {
                let _ = m;
                st.label("mismatch_not_reproduced_on_a_further_attempt");
                Ok(())
            }
        },
    }
}
fn second_go_strategy() -> impl Strategy<Value = SecondGo> {
    (prop_oneof![3 => endgame_walk_strategy(20), 1 => gamelike_walk_strategy(40)], any::<u16>(), any::<u16>()).prop_map(|(walk, sel, slice)| SecondGo { walk, sel, slice })
}
pub fn run_c10_blackbox(ctx: &mut Ctx) {
    let t = ctx.tier;
    let saved = ctx.workers;
    ctx.workers = 8;
    ctx.max_shrink_iters = 24;
    run_prop(
        ctx,
        "go_through_uci_vs_direct_search_on_the_same_record",
        || (crate::props::search::rep_strategy(40, true), any::<u16>()),
        t.pick(260, 4_000),
        |(r, slice), st| {
            st.sample(|| json!({"uci_vs_direct": true, "game": crate::props::search::rep_json(r), "slice": slice}));
            c10_uci_vs_direct(r, *slice, st)
        },
        |(r, slice)| json!({"uci_vs_direct": true, "game": crate::props::search::rep_json(r), "slice": slice}),
    );
    run_prop(
        ctx,
        "second_go_of_a_chain_still_knows_the_game",
        second_go_strategy,
        t.pick(2_400, 40_000),
        |g, st| {
            let Some((ptext, _, b, _)) = second_go_texts(g) else {
                st.label("not_constructible_skip");
                return Ok(());
            };
            st.eval();
            st.sample(|| second_go_json(g));
            st.nontrivial(fp(&ptext));
            c10_second_go_run(&ptext, &mv_name(&b), g.slice, st)
        },
        second_go_json,
    );
    ctx.workers = saved;
}
pub fn replay_c10_blackbox(case: &Value) -> CaseResult {
    if case.get("second_go").is_some() {
        let ptext = case.get("position").and_then(|x| x.as_str()).ok_or("no position")?;
        let pred = case.get("predicted_reply").and_then(|x| x.as_str()).ok_or("no predicted reply")?;
        let slice = case.get("slice").and_then(|x| x.as_u64()).unwrap_or(0) as u16;
        return c10_second_go_run(ptext, pred, slice, &mut Stats::new());
    }
    let g = case.get("game").ok_or("no game")?;
    let (start, moves) = parse_game_case(g)?;
    let slice = case.get("slice").and_then(|x| x.as_u64()).unwrap_or(0) as u16;
    // wrap the concrete game into a recipe-free call
    let c = crate::props::search::make_case(&start, &moves)?;
    if c.root.legal_moves().is_empty() {
        return Ok(());
    }
    REPLAY_GAME.with(|r| *r.borrow_mut() = Some((start, moves)));
    let dummy = crate::props::search::RepRecipe { walk: WalkRecipe { start: Start::Corpus(0), choices: vec![] }, cycles: 0, c1: 0, c2: 0, tail_cut: 0 };
    let r = c10_uci_vs_direct(&dummy, slice, &mut Stats::new());
    REPLAY_GAME.with(|r| *r.borrow_mut() = None);
    r
}
thread_local! { pub static REPLAY_GAME: std::cell::RefCell<Option<(Pos, Vec<Move>)>> = std::cell::RefCell::new(None); }

pub fn replay_c16(case: &Value) -> CaseResult {
    if case.get("many_searches").is_some() {
        let start = case.get("start").and_then(|x| x.as_str()).ok_or("no start")?;
        let p = position_from_text(start)?;
        REPLAY_START.with(|r| *r.borrow_mut() = Some((start.to_string(), p)));
        let c = ManySearches {
            pos: RepSpec { walk: WalkRecipe { start: Start::Corpus(0), choices: vec![] }, cycles: 0, form: 0 },
            count: case.get("count").and_then(|x| x.as_u64()).unwrap_or(256) as u16,
            slice: case.get("slice").and_then(|x| x.as_u64()).unwrap_or(0) as u16,
            timed_fillers: case.get("timed_fillers").and_then(|x| x.as_bool()).unwrap_or(false),
        };
        let r = many_case(&c, &mut Stats::new());
        REPLAY_START.with(|r| *r.borrow_mut() = None);
        return r;
    }
    if case.get("continuation").is_some() {
        let start = case.get("start").and_then(|x| x.as_str()).ok_or("no start")?;
        // rebuild the case around the concrete start text
        let p = position_from_text(start)?;
        let slice = case.get("slice").and_then(|x| x.as_u64()).unwrap_or(0) as u16;
        let plies = case.get("plies").and_then(|x| x.as_u64()).unwrap_or(0) as u8;
        REPLAY_START.with(|r| *r.borrow_mut() = Some((start.to_string(), p)));
        let c = ContinuationCase { pos: RepSpec { walk: WalkRecipe { start: Start::Corpus(0), choices: vec![] }, cycles: 0, form: 0 }, slice, plies };
        let r = continuation_case(&c, &mut Stats::new());
        REPLAY_START.with(|r| *r.borrow_mut() = None);
        return r;
    }
    let prefix: Vec<String> = case.get("prefix").and_then(|x| x.as_array()).map(|a| a.iter().filter_map(|v| v.as_str().map(|s| s.to_string())).collect()).unwrap_or_default();
    let ptext = case.get("probe").and_then(|x| x.as_str()).ok_or("no probe")?;
    let slice = case.get("slice").and_then(|x| x.as_u64()).unwrap_or(60) as u16;
    let settle = case.get("settle").and_then(|x| x.as_bool()).unwrap_or(true);
    let p = position_from_text(ptext)?;
    let mut fresh = Engine::spawn()?;
    fresh.handshake()?;
    let f = run_probe(&mut fresh, ptext, &p, slice)?;
    let mut e = Engine::spawn()?;
    e.handshake()?;
    for t in &prefix {
        if t.starts_with("go") {
            e.send(t);
            let (_, ok) = e.read_until(|l| l.starts_with("bestmove"), Duration::from_millis(HARD_WAIT_MS));
            if !ok {
                return Err("a go of the prefix session was not answered".into());
            }
        } else if t == "isready" {
            e.isready(Duration::from_secs(5))?;
        } else {
            e.send(t);
        }
    }
    e.isready(Duration::from_secs(5))?;
    if settle {
        e.settle(60);
    }
    let s1 = run_probe(&mut e, ptext, &p, slice)?;
    if settle {
        e.settle(40);
    }
    let s2 = run_probe(&mut e, ptext, &p, slice)?;
    for s in [&s1, &s2] {
        if s.zero != f.zero {
            return Err(format!("zero-allowance reply {:?} differs from a fresh engine's {:?}", s.zero, f.zero));
        }
        if let Some(i) = common_prefix_equal(&s.timed, &f.timed) {
            return Err(format!("improvement #{} is {:?} but a fresh engine reports {:?}", i, s.timed[i], f.timed[i]));
        }
    }
    Ok(())
}

// ---------------------------------------------------------------------------------------------
// C17: unknown input is ignored; lifecycle

#[derive(Debug, Clone)]
pub struct C17Case {
    pub pos: PosSpec,
    pub junk: Vec<(u8, String)>,
    /// 0 quit idle, 1 quit right after go, 2 EOF idle, 3 EOF right after go, 4 EOF before uci,
    /// 5 EOF after a blank line, 6 EOF after an unterminated fragment
    pub ending: u8,
    pub slice: u16,
    pub go_noise: u8,
}
fn junk_line() -> impl Strategy<Value = String> {
    prop_oneof![
        2 => Just("".to_string()),
        2 => "[ \\t]{1,6}",
        1 => Just("\u{a0}\u{2003}".to_string()),
        3 => "[a-z]{1,10}( [a-z0-9]{1,8}){0,4}",
        1 => Just("uci".to_string()),
        2 => prop_oneof![Just("setoption name Clear Hash".to_string()), Just("setoption".to_string()), Just("setoption name".to_string()), Just("setoption name Ponder".to_string()), Just("setoption name Hash value".to_string()), Just("setoption value 3".to_string())],
        1 => Just("stop".to_string()),
        1 => Just("ponderhit".to_string()),
        1 => Just("debug on".to_string()),
        1 => Just("Position startpos".to_string()),
        2 => (prop_oneof![Just("go"), Just("quit"), Just("isready"), Just("position"), Just("uci"), Just("setoption"), Just("ucinewgame")], "[a-z]{1,6}", "( [a-z0-9]{1,6}){0,3}").prop_map(|(c, suffix, rest)| format!("{}{}{}", c, suffix, rest)),
        1 => Just("GO".to_string()),
        1 => "[a-z]{200,600}",
        1 => "\\PC{1,12}".prop_map(|s| s.replace(['\n', '\r'], " ")),
        // very long lines. One word whose tail, starting at a power-of-two byte offset, spells a
        // command: a reader that cuts lines at a buffer size would execute the tail
        1 => (10u32..=16, prop_oneof![Just("quit"), Just("position startpos moves e2e4"), Just("position fen 8/8/8/8/8/8/8/K6k w - - 0 1"), Just("go"), Just("isready")], prop_oneof![Just('x'), Just('q'), Just('0')])
            .prop_map(|(k, tail, ch)| format!("{}{}", ch.to_string().repeat(1usize << k), tail)),
        // ... and long lines of multi-byte characters (a cut at a byte offset lands inside a character)
        1 => (300usize..30_000, 0usize..3, prop_oneof![Just("\u{20ac}"), Just("\u{e9}"), Just("\u{1f600}")]).prop_map(|(n, pre, ch)| format!("{}{}", &"ab"[..pre], ch.repeat(n))),
    ]
}
fn is_command_word(w: &str) -> bool {
    // `setoption` lines are generated on purpose (options the engine does not have, button options
    // without a value): they must be tolerated like any other line it has no use for
    matches!(w, "isready" | "ucinewgame" | "position" | "go" | "quit")
}
fn sanitize_junk(s: &str) -> String {
    // a junk line must not accidentally BE a command after the engine's whitespace cleaning
    let cleaned: String = s.split_whitespace().collect::<Vec<_>>().join(" ");
    let first = cleaned.split(' ').next().unwrap_or("");
    if is_command_word(first) {
        format!("x{}", s)
    } else {
        s.to_string()
    }
}
fn spaced(cmd: &str, mode: u8) -> String {
    // surplus or odd whitespace inside a real command: the engine splits on any Unicode white space
    match mode % 8 {
        0 => cmd.to_string(),
        1 => cmd.replace(' ', "   "),
        2 => format!("  {}  ", cmd.replace(' ', " \t ")),
        3 => format!("\t{}\t", cmd),
        4 => format!("{}{}", cmd.replace(' ', "\u{000B}"), '\u{000C}'),
        5 => format!("{}\r\r", cmd),
        6 => format!("{}{}{}", '\u{00A0}', cmd.replace(' ', "\u{00A0}"), '\u{2003}'),
        _ => format!("{}{}", cmd.replace(' ', "\u{2002}\u{3000}"), '\u{0085}'),
    }
}
pub fn c17_case(c: &C17Case, st: &mut Stats) -> CaseResult {
    let Some((ptext, p)) = position_text(&c.pos) else { return Ok(()) };
    c17_core(&ptext, &p, c, st)
}
pub fn c17_core(ptext: &str, p: &Pos, c: &C17Case, st: &mut Stats) -> CaseResult {
    let ptext = ptext.to_string();
    let p = p.clone();
    if p.legal_moves().is_empty() {
        return Ok(());
    }
    st.eval();
    let white = p.stm == Color::White;
    let mut e = Engine::spawn()?;
    if c.ending == 4 {
        // stdin closed before the handshake
        e.close_stdin();
        return match e.wait_exit(Duration::from_secs(2)) {
            Some(_) => {
                st.label("eof_before_uci");
                st.nontrivial(fp(&"eof_before_uci"));
                Ok(())
            }
            None => Err("closing stdin before `uci` does not end the process within 2 s".into()),
        };
    }
    e.handshake()?;
    // reference: zero-allowance answer without any junk
    e.send(&ptext);
    let base = do_go(&mut e, "go", 0)?.bestmove.unwrap_or_default();
    check_bestmove(&base, &p)?;
    // junk between real commands; state must be unchanged
    e.send(&spaced(&ptext, c.go_noise));
    let mut n_junk = 0;
    for (i, (k, j)) in c.junk.iter().enumerate() {
        let j = sanitize_junk(j);
        e.send(&j);
        n_junk += 1;
        if k % 3 == 0 {
            // `isready` itself written with odd white space now and then
            e.send(&spaced("isready", k >> 2));
            let (_, ok) = e.read_until(|l| l == "readyok", Duration::from_secs(2));
            if !ok {
                return Err(format!("after the ignorable line {:?}: `{}` was not answered with `readyok` within 2 s ({})", j, spaced("isready", k >> 2).escape_debug(), e.context()));
            }
        }
        if i == c.junk.len() / 2 {
            let a = do_go(&mut e, &spaced("go", c.go_noise >> 2), 0).map_err(|m| format!("after ignorable lines: {}", m))?;
            let bm = a.bestmove.unwrap_or_default();
            if bm != base {
                return Err(format!("after ignorable lines {:?} the zero-allowance answer to `{}` changed from {:?} to {:?}", c.junk.iter().take(i + 1).map(|x| x.1.chars().take(80).collect::<String>()).collect::<Vec<_>>(), ptext, base, bm));
            }
            e.send(&ptext);
        }
    }
    // bursts: a long run of blank / whitespace-only lines, or hundreds to thousands of DISTINCT
    // unknown lines - what a table of "lines seen", a recursion per skipped line or a counter would need
    if c.slice % 5 == 0 {
        let n = [300usize, 3_000, 40_000, 300_000][(c.go_noise as usize >> 1) % 4];
        let mut buf = String::with_capacity(n * 2);
        for i in 0..n {
            buf.push_str(if i % 7 == 3 { " \t\n" } else { "\n" });
        }
        e.send_raw(buf.as_bytes());
        e.isready(Duration::from_secs(20)).map_err(|m| format!("after a run of {} blank lines: {}", n, m))?;
        st.label("burst_of_blank_lines");
    } else if c.slice % 5 == 1 {
        let n = [260usize, 1_100, 5_000, 70_000][(c.go_noise as usize >> 1) % 4];
        let mut buf = String::with_capacity(n * 14);
        for i in 0..n {
            buf.push_str(&format!("xyzzy {} {}\n", i, fp(&(i, c.slice)) % 100_000));
        }
        e.send_raw(buf.as_bytes());
        e.isready(Duration::from_secs(20)).map_err(|m| format!("after {} distinct unknown lines: {}", n, m))?;
        st.label("burst_of_distinct_unknown_lines");
    }
    e.isready(Duration::from_secs(2))?;
    if c.junk.len() > 1 || c.slice % 5 <= 1 {
        // the lines after the mid-way probe must have left the position alone as well
        let a = do_go(&mut e, "go", 0).map_err(|m| format!("after all ignorable lines: {}", m))?;
        let bm = a.bestmove.unwrap_or_default();
        if bm != base {
            return Err(format!("after ignorable lines {:?} the zero-allowance answer to `{}` changed from {:?} to {:?}", c.junk.iter().map(|x| x.1.chars().take(80).collect::<String>()).collect::<Vec<_>>(), ptext, base, bm));
        }
    }
    if c.junk.iter().any(|x| x.1.len() > 1000) {
        st.label("session_with_a_line_longer_than_1000_bytes");
    }
    // unknown tokens inside go, at key boundaries, with a real slice: the clock must still be read
    let slice = 30 + (c.slice % 60) as u64;
    let clock = 100 + slice * 30 * 10 / 8 + 1;
    let noise = ["ponder", "infinite", "xyzzy", "depth 3", "foo bar baz"][c.go_noise as usize % 5];
    let (me, opp) = if white { ("wtime", "btime") } else { ("btime", "wtime") };
    let go = match (c.go_noise >> 3) % 3 {
        0 => format!("go {} {} {} {} 5000", noise, me, clock, opp),
        1 => format!("go {} 5000 {} {} {}", opp, noise, me, clock),
        _ => format!("go {} {} {} 5000 {}", me, clock, opp, noise),
    };
    let plan = plan_ms(&go, white);
    let measure = |e: &mut Engine| -> Result<f64, String> {
        e.send(&ptext);
        let a = do_go(e, &spaced(&go, c.go_noise >> 5), plan)?;
        check_bestmove(&a.bestmove.unwrap_or_default(), &p)?;
        Ok(a.delay_ms)
    };
    let d = measure(&mut e)?;
    latency_rule(d, plan, true, || {
        let mut e2 = Engine::spawn()?;
        e2.handshake()?;
        measure(&mut e2)
    })
    .map_err(|m| format!("unknown tokens inside go changed the time used: {} [`{}`]", m, go))?;
    // lines that arrive WHILE the engine is thinking: a position command (another position), an
    // ignorable line, and now and then `stop`. They must be dealt with in order once the answer is
    // out (or at once, by an engine that reads ahead): exactly one legal bestmove for the go, and
    // afterwards the engine stands on the other position.
    if c.slice % 3 != 0 {
        let others = ["position startpos", "position startpos moves e2e4 e7e5", "position fen 8/8/8/4k3/8/8/4P3/4K3 w - - 0 1", "position fen r3k2r/8/8/8/8/8/8/R3K2R b KQkq - 0 1"];
        let mut oi = (c.go_noise as usize) % others.len();
        if others[oi] == ptext {
            oi = (oi + 1) % others.len();
        }
        let other = others[oi];
        let op = position_from_text(other)?;
        e.send(other);
        let base_other = do_go(&mut e, "go", 0)?.bestmove.unwrap_or_default();
        check_bestmove(&base_other, &op)?;
        e.send(&ptext);
        e.drain();
        let with_stop = c.slice % 4 == 1;
        let filler = sanitize_junk(c.junk.first().map(|x| x.1.as_str()).filter(|x| x.len() < 200).unwrap_or("xyzzy plugh"));
        e.send(&go);
        e.send(other);
        e.send(&filler);
        if with_stop {
            e.send("stop");
        }
        let (lines, ok) = e.read_until(|l| l.starts_with("bestmove"), Duration::from_millis(plan + HARD_WAIT_MS));
        if !ok {
            return Err(format!("`{}` followed at once by `{}`, {:?}{} was not answered with a bestmove line within plan {} ms + {} ms ({})", go, other, filler, if with_stop { ", `stop`" } else { "" }, plan, HARD_WAIT_MS, e.context()));
        }
        let bm = lines.last().map(|x| x.1.clone()).unwrap_or_default();
        check_bestmove(&bm, &p).map_err(|m| format!("{} [`{}` with `{}`, {:?}{} arriving during the search]", m, go, other, filler, if with_stop { ", `stop`" } else { "" }))?;
        let fence = e.isready(Duration::from_secs(5))?;
        if fence.iter().any(|l| l.starts_with("bestmove")) {
            return Err(format!("`{}` with lines arriving during the search produced more than one bestmove line", go));
        }
        let after = do_go(&mut e, "go", 0)?.bestmove.unwrap_or_default();
        if after != base_other {
            return Err(format!("`{}` and {:?} arrived while the engine was searching [{} ; {}]; afterwards the zero-allowance answer is {:?}, but for `{}` it is {:?}", other, filler, ptext, go, after, other, base_other));
        }
        st.label(if with_stop { "lines_and_stop_arriving_during_a_search" } else { "lines_arriving_during_a_search" });
    }
    // endings
    let t_end = Instant::now();
    let limit;
    match c.ending {
        0 => {
            e.send("quit");
            limit = 1000;
        }
        1 => {
            e.send(&ptext);
            e.send(&go);
            e.send("quit");
            limit = plan + 1000;
        }
        2 => {
            e.close_stdin();
            limit = 1000;
        }
        3 => {
            e.send(&ptext);
            e.send(&go);
            e.close_stdin();
            limit = plan + 1000;
        }
        5 => {
            e.send("");
            e.send("   ");
            e.close_stdin();
            limit = 1000;
        }
        6 => {
            e.send_raw(b"isready\n  \t ");
            e.close_stdin();
            limit = 1000;
        }
        _ => {
            // the last command arrives without a line terminator: it is still a complete command
            e.drain();
            e.send_raw(b"isready");
            e.close_stdin();
            limit = 1000;
        }
    }
    let status = e.wait_exit(Duration::from_millis(limit + 1500));
    let took = t_end.elapsed().as_millis() as u64;
    let name = ["quit_when_idle", "quit_right_after_go", "eof_when_idle", "eof_right_after_go", "eof_before_uci", "eof_after_blank_line", "eof_after_unterminated_fragment", "eof_after_unterminated_command"][c.ending as usize % 8];
    st.label(&format!("ending_{}", name));
    if status.is_none() {
        return Err(format!("ending `{}`: the process is still running {} ms later (limit {} ms + 1.5 s grace){}", name, took, limit, if c.ending >= 2 { " - standard input is closed, so it can only be spinning" } else { "" }));
    }
    if c.ending == 7 {
        let (lines, _) = e.read_until(|_| false, Duration::from_millis(200));
        if !lines.iter().any(|l| l.1 == "readyok") {
            return Err("`isready` sent as the last line without a line terminator, then end of input: no `readyok` was printed before the process ended".into());
        }
    }
    if c.ending == 3 {
        // the outstanding go must still have been answered before the exit
        let (lines, _) = e.read_until(|_| false, Duration::from_millis(200));
        if !lines.iter().any(|l| l.1.starts_with("bestmove")) {
            return Err(format!("stdin closed right after `{}`: the process ended without printing the pending bestmove", go));
        }
    }
    if n_junk >= 3 || c.ending >= 2 {
        st.nontrivial(fp(&(&ptext, &c.junk, c.ending, c.go_noise)));
    }
    Ok(())
}
fn c17_json(c: &C17Case) -> Value {
    json!({"position": position_text(&c.pos).map(|x| x.0), "junk": c.junk.iter().map(|x| json!([x.0, x.1])).collect::<Vec<_>>(), "ending": c.ending, "slice": c.slice, "go_noise": c.go_noise})
}
pub fn run_c17(ctx: &mut Ctx) {
    let t = ctx.tier;
    ctx.max_shrink_iters = 6;
    let saved = ctx.workers;
    ctx.workers = 8;
    run_prop(
        ctx,
        "ignorable_input_and_lifecycle_sessions",
        || (pos_spec_strategy(), proptest::collection::vec((any::<u8>(), junk_line()), 0..10), prop_oneof![2 => Just(0u8), 2 => Just(1u8), 3 => Just(2u8), 3 => Just(3u8), 1 => Just(4u8), 3 => Just(5u8), 2 => Just(6u8), 3 => Just(7u8)], any::<u16>(), any::<u8>()).prop_map(|(pos, junk, ending, slice, go_noise)| C17Case { pos, junk, ending, slice, go_noise }),
        t.pick(650, 25_000),
        |c, st| {
            st.sample(|| {
                // samples abbreviate very long lines (the replay file of a violation keeps them whole)
                let mut v = c17_json(c);
                if let Some(a) = v.get_mut("junk").and_then(|x| x.as_array_mut()) {
                    for j in a.iter_mut() {
                        if let Some(t) = j.get(1).and_then(|x| x.as_str()).map(|t| t.to_string()) {
                            if t.len() > 120 {
                                let head: String = t.chars().take(24).collect();
                                let tail: String = t.chars().rev().take(44).collect::<Vec<_>>().into_iter().rev().collect();
                                j[1] = json!(format!("{}...[{} bytes]...{}", head, t.len(), tail));
                            }
                        }
                    }
                }
                v
            });
            c17_case(c, st)
        },
        c17_json,
    );
    ctx.workers = saved;
}
pub fn replay_c17(case: &Value) -> CaseResult {
    let ptext = case.get("position").and_then(|x| x.as_str()).ok_or("no position")?;
    let junk: Vec<(u8, String)> = case.get("junk").and_then(|x| x.as_array()).map(|a| a.iter().filter_map(|v| Some((v.get(0)?.as_u64()? as u8, v.get(1)?.as_str()?.to_string()))).collect()).unwrap_or_default();
    // rebuild a case around the concrete position text
    let p = position_from_text(ptext)?;
    let c = C17Case { pos: PosSpec { walk: WalkRecipe { start: Start::Corpus(0), choices: vec![] }, form: 0 }, junk, ending: case.get("ending").and_then(|x| x.as_u64()).unwrap_or(0) as u8, slice: case.get("slice").and_then(|x| x.as_u64()).unwrap_or(0) as u16, go_noise: case.get("go_noise").and_then(|x| x.as_u64()).unwrap_or(0) as u8 };
    c17_core(ptext, &p, &c, &mut Stats::new())
}
