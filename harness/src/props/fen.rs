//! C15: FEN input is parsed totally and faithfully.
use crate::board::BoardState;
use crate::bridge::*;
use crate::gen::*;
use crate::oracle::*;
use crate::props::movegen::hasher;
use crate::runner::*;
use proptest::prelude::*;
use serde_json::{json, Value};

/// counters for which a well-formed FEN must certainly be accepted (any real game: the fifty/
/// seventy-five move rules bound the half-move clock, ~5900 moves bound the move number)
const MAX_HALF: u64 = 200;
const MAX_FULL: u64 = 9000;

/// Is `s` a well-formed FEN of a legal position (C01's definition) with counters in the certainly
/// valid range and the castling field in the standard order? Only then must the loader accept it.
pub fn must_accept(s: &str) -> Option<(Pos, u64, u64)> {
    let (p, half, full) = Pos::parse_fen_full(s)?;
    if half > MAX_HALF || full < 1 || full > MAX_FULL {
        return None;
    }
    let parts: Vec<&str> = s.split(' ').collect();
    let canon: String = "KQkq".chars().filter(|c| parts[2].contains(*c)).collect();
    if parts[2] != "-" && parts[2] != canon {
        return None;
    }
    // counters written without sign or leading zeros (plain decimal)
    for c in [parts[4], parts[5]] {
        if c.len() > 1 && c.starts_with('0') {
            return None;
        }
    }
    if !p.is_legal_position() {
        return None;
    }
    Some((p, half, full))
}

pub fn c15_string(s: &str, st: &mut Stats) -> CaseResult {
    st.eval();
    let r = catch(|| BoardState::from_fen(s).map_err(|e| e.to_string())).map_err(|p| format!("from_fen panicked on {:?}: {}", s, p))?;
    let six = s.split(' ').count() == 6;
    if six {
        st.label("six_fields");
    }
    match (&r, must_accept(s)) {
        (Err(e), Some(_)) => {
            return Err(format!("from_fen rejected the well-formed FEN of a legal position {:?} with '{}'", s, e));
        }
        (Ok(b), Some((p, half, full))) => {
            st.label("well_formed_legal_accepted");
            let d = diff_board(b, &p);
            if !d.is_empty() {
                return Err(format!("from_fen({:?}) loaded a different position: {}", s, d.join("; ")));
            }
            if b.zobrist_key != scratch_key(b, hasher()) {
                return Err(format!("from_fen({:?}) sets the key {:016x}, from-scratch key is {:016x}", s, b.zobrist_key, scratch_key(b, hasher())));
            }
            if b.last_move.is_some() || b.pawn_promotion.is_some() {
                return Err(format!("from_fen({:?}) sets a last move / promotion field", s));
            }
            if half > 255 || full > 255 {
                st.label("counter_above_255");
            }
            if p.ep.is_some() {
                st.label("ep_square");
            }
            if half > 255 || full > 255 || p.ep.is_some() || six {
                st.nontrivial(fp(&s));
            }
        }
        (Ok(_), None) => {
            st.label("accepted_not_required");
            if six {
                st.nontrivial(fp(&s));
            }
        }
        (Err(_), None) => {
            st.label("rejected_with_error");
            if six {
                st.nontrivial(fp(&s));
            }
        }
    }
    Ok(())
}

fn field_garbage() -> impl Strategy<Value = String> {
    prop_oneof![
        3 => "[ -~]{0,12}",
        2 => "\\PC{0,4}",
        2 => "[0-9]{1,22}",
        1 => "[a-h][1-8]",
        1 => "[a-hx-z][0-9a-z]",
        1 => prop_oneof![Just("é".to_string()), Just("ax".to_string()), Just("a9".to_string()), Just("i3".to_string()), Just("-".to_string()), Just("--".to_string()), Just("".to_string()), Just("e33".to_string()), Just("ü1".to_string()), Just("1e".to_string())],
        1 => "[KQkq-]{0,6}",
        1 => "[wb-]{0,2}",
        1 => "-?[0-9]{1,4}",
    ]
}
fn placement_garbage() -> impl Strategy<Value = String> {
    prop_oneof![
        3 => "([pnbrqkPNBRQK1-8]{1,8}/){7}[pnbrqkPNBRQK1-8]{1,8}",
        2 => "([pnbrqkPNBRQK0-9]{0,10}/){0,9}[pnbrqkPNBRQK0-9]{0,10}",
        1 => "[ -~]{0,40}",
        1 => Just("8/8/8/8/8/8/8/8".to_string()),
        1 => Just("rnbqkbnr/pppppppp/8/8/8/8/PPPPPPPP/RNBQKBNR".to_string()),
        1 => "(8/){0,12}8",
        1 => "\\PC{0,12}",
    ]
}
pub fn six_fields() -> impl Strategy<Value = String> {
    (placement_garbage(), prop_oneof![2 => Just("w".to_string()), 2 => Just("b".to_string()), 1 => field_garbage()], prop_oneof![3 => "[KQkq]{0,4}", 1 => Just("-".to_string()), 1 => field_garbage()], prop_oneof![2 => Just("-".to_string()), 2 => "[a-h][36]", 3 => field_garbage()], prop_oneof![2 => "[0-9]{1,3}", 1 => field_garbage()], prop_oneof![2 => "[0-9]{1,4}", 1 => field_garbage()], prop_oneof![8 => Just(" "), 1 => Just("  "), 1 => Just("\t")])
        .prop_map(|(a, b, c, d, e, f, sep)| [a, b, c, d, e, f].join(sep))
}

#[derive(Debug, Clone)]
pub struct MutFen {
    pub base: WalkRecipe,
    pub half: u32,
    pub full: u32,
    /// (operation, position, character)
    pub edits: Vec<(u8, u16, char)>,
}
fn counter_half() -> impl Strategy<Value = u32> {
    prop_oneof![5 => 0u32..=100, 2 => 100u32..=200]
}
fn counter_full() -> impl Strategy<Value = u32> {
    prop_oneof![4 => 1u32..=120, 3 => 250u32..=260, 2 => 120u32..=9000, 1 => prop_oneof![Just(255u32), Just(256u32), Just(257u32), Just(300u32), Just(1000u32), Just(9000u32)]]
}
fn edit_char() -> impl Strategy<Value = char> {
    prop_oneof![4 => proptest::char::range(' ', '~'), 2 => prop_oneof![Just('/'), Just(' '), Just('0'), Just('9'), Just('8'), Just('1'), Just('-'), Just('k'), Just('K'), Just('x')], 1 => prop_oneof![Just('é'), Just('♔'), Just('\u{0}'), Just('\n'), Just('\t'), Just('ß')], 1 => any::<char>()]
}
pub fn mutfen_strategy(max_edits: usize) -> impl Strategy<Value = MutFen> {
    (walk_strategy(40), counter_half(), counter_full(), proptest::collection::vec((0u8..6, any::<u16>(), edit_char()), 0..max_edits)).prop_map(|(base, half, full, edits)| MutFen { base, half, full, edits })
}
pub fn mutfen_string(m: &MutFen) -> Option<String> {
    let (start, moves) = play_walk(&m.base)?;
    let mut p = start;
    for mv in &moves {
        p = p.apply(mv);
    }
    let mut chars: Vec<char> = p.fen_with(m.half, m.full).chars().collect();
    for &(op, pos, ch) in &m.edits {
        let n = chars.len();
        let i = if n == 0 { 0 } else { (pos as usize * n) >> 16 };
        match op {
            0 if n > 0 => chars[i] = ch,
            1 if n > 0 => {
                chars.remove(i);
            }
            2 => chars.insert(i.min(n), ch),
            3 if n > 0 => chars.truncate(i),
            4 if n > 0 => {
                // duplicate the tail from i
                let tail: Vec<char> = chars[i..].to_vec();
                chars.extend(tail);
            }
            5 if n > 0 => {
                // replace the whole field containing i by the character
                let s: String = chars.iter().collect();
                let mut fields: Vec<String> = s.split(' ').map(|x| x.to_string()).collect();
                let mut acc = 0;
                for f in fields.iter_mut() {
                    let len = f.chars().count() + 1;
                    if i < acc + len {
                        *f = ch.to_string();
                        break;
                    }
                    acc += len;
                }
                chars = fields.join(" ").chars().collect();
            }
            _ => {}
        }
    }
    Some(chars.into_iter().collect())
}

/// from_fen on a helper thread with a 10 s limit (None = did not return; the thread is abandoned)
fn from_fen_bounded(s: &str) -> Option<Result<Result<(), String>, String>> {
    let (tx, rx) = std::sync::mpsc::channel();
    let owned = s.to_string();
    std::thread::spawn(move || {
        let r = catch(|| BoardState::from_fen(&owned).map(|_| ()).map_err(|e| e.to_string()));
        let _ = tx.send(r);
    });
    rx.recv_timeout(std::time::Duration::from_secs(10)).ok()
}

/// black-box: the CLI front end prints the loader's error and exits normally
pub fn cli_check(s: &str) -> CaseResult {
    let bin = std::env::var("WALLEYE_BIN").map_err(|_| "HARNESS: WALLEYE_BIN not set".to_string())?;
    let expected = match from_fen_bounded(s) {
        Some(Ok(Err(e))) => e,
        None => return Err(format!("from_fen did not return within 10 s on {:?} (non-termination)", s)),
        _ => return Ok(()), // accepted (or panicking: reported by the in-process part)
    };
    // a private scratch directory per invocation (the same string can be tried by two workers)
    static N: std::sync::atomic::AtomicU64 = std::sync::atomic::AtomicU64::new(0);
    let dir = format!("{}/run/cli_{}_{}", std::env::var("VERIF_CACHE").unwrap_or_else(|_| "/verif/.cache".into()), std::process::id(), N.fetch_add(1, std::sync::atomic::Ordering::Relaxed));
    std::fs::create_dir_all(&dir).ok();
    // the error must be reported whatever mode the front end was asked for: perft bench, UCI
    // (no mode flag; stdin is empty), self-play, simple printing
    let mode: &[&str] = [&["-T", "-d", "1"][..], &[][..], &["-P"][..], &["-S", "-d", "2"][..]][(fp(&s) % 4) as usize];
    let shown = format!("walleye --fen={:?} {}", s, mode.join(" "));
    // `--fen=<s>` carries empty and dash-leading values; clap swallows a second `=`, so a value that
    // itself starts with `=` is passed as a separate argument instead
    let fen_args: Vec<String> = if s.starts_with('=') { vec!["--fen".into(), s.to_string()] } else { vec![format!("--fen={}", s)] };
    let mut child = std::process::Command::new(&bin).current_dir(&dir).args(&fen_args).args(mode).stdin(std::process::Stdio::null()).stdout(std::process::Stdio::piped()).stderr(std::process::Stdio::piped()).spawn().map_err(|e| format!("HARNESS: cannot run {}: {}", bin, e))?;
    let t0 = std::time::Instant::now();
    loop {
        match child.try_wait() {
            Ok(Some(_)) => break,
            Ok(None) if t0.elapsed().as_secs() >= 10 => {
                let _ = child.kill();
                let _ = child.wait();
                std::fs::remove_dir_all(&dir).ok();
                return Err(format!("`{}` neither printed an error nor exited within 10 s", shown));
            }
            Ok(None) => std::thread::sleep(std::time::Duration::from_millis(2)),
            Err(e) => return Err(format!("HARNESS: wait failed: {}", e)),
        }
    }
    let out = child.wait_with_output().map_err(|e| format!("HARNESS: cannot collect output: {}", e))?;
    std::fs::remove_dir_all(&dir).ok();
    let stdout = String::from_utf8_lossy(&out.stdout);
    let stderr = String::from_utf8_lossy(&out.stderr);
    if stderr.contains("panicked") {
        return Err(format!("`{}` panicked: {}", shown, stderr.lines().next().unwrap_or("")));
    }
    if out.status.code() != Some(0) {
        return Err(format!("`{}` exited with {:?} (stderr: {})", shown, out.status.code(), stderr.lines().next().unwrap_or("")));
    }
    if !stdout.contains(&expected) {
        return Err(format!("`{}` did not print the loader's error '{}' (stdout: {:?})", shown, expected, stdout.lines().next().unwrap_or("")));
    }
    Ok(())
}

/// Twins: two FENs of legal positions that differ in exactly one field, loaded one directly after
/// the other in the same thread (A, B, A). Each load is judged on its own FEN, so a loader that
/// remembers anything from the previous call (a cache keyed by part of the text, a field that is
/// only overwritten when present) shows up as an unfaithful second or third load.
#[derive(Debug, Clone)]
pub struct Twin {
    pub base: WalkRecipe,
    pub field: u8,
    pub sel: u16,
    pub half: (u32, u32),
    pub full: (u32, u32),
}
fn twin_strategy() -> impl Strategy<Value = Twin> {
    let base = prop_oneof![
        3 => walk_strategy(40),
        3 => (placement_ep().prop_map(Start::Placement), proptest::collection::vec(any::<u16>(), 0..2)).prop_map(|(start, choices)| WalkRecipe { start, choices }),
        2 => (placement_castle().prop_map(Start::Placement), proptest::collection::vec(any::<u16>(), 0..3)).prop_map(|(start, choices)| WalkRecipe { start, choices }),
    ];
    (base, 0u8..6, any::<u16>(), (counter_half(), counter_half()), (counter_full(), counter_full())).prop_map(|(base, field, sel, half, full)| Twin { base, field, sel, half, full })
}
pub fn twin_strings(t: &Twin) -> Option<(String, String, &'static str)> {
    let (start, moves) = play_walk(&t.base)?;
    let mut p = start;
    for mv in &moves {
        p = p.apply(mv);
    }
    let a = p.fen_with(t.half.0, t.full.0);
    let mut q = p.clone();
    let (mut h, mut f) = (t.half.0, t.full.0);
    let name = match t.field {
        0 => {
            let men: Vec<usize> = (0..64).filter(|&s| matches!(p.sq[s], Some((_, k)) if k != Kind::King)).collect();
            if men.is_empty() {
                return None;
            }
            q.sq[men[(t.sel as usize * men.len()) >> 16]] = None;
            // rights and ep target may depend on the removed man
            q.wk &= q.sq[7] == Some((Color::White, Kind::Rook));
            q.wq &= q.sq[0] == Some((Color::White, Kind::Rook));
            q.bk &= q.sq[63] == Some((Color::Black, Kind::Rook));
            q.bq &= q.sq[56] == Some((Color::Black, Kind::Rook));
            if (q.wk, q.wq, q.bk, q.bq) != (p.wk, p.wq, p.bk, p.bq) {
                return None;
            }
            "placement"
        }
        1 => {
            if p.ep.is_some() || p.in_check(Color::White) || p.in_check(Color::Black) {
                return None;
            }
            q.stm = p.stm.opp();
            "side_to_move"
        }
        2 => {
            let held: Vec<u8> = [(p.wk, 0u8), (p.wq, 1), (p.bk, 2), (p.bq, 3)].iter().filter(|x| x.0).map(|x| x.1).collect();
            if held.is_empty() {
                return None;
            }
            match held[(t.sel as usize * held.len()) >> 16] {
                0 => q.wk = false,
                1 => q.wq = false,
                2 => q.bk = false,
                _ => q.bq = false,
            }
            "castling"
        }
        3 => {
            p.ep?;
            q.ep = None;
            "en_passant"
        }
        4 => {
            if t.half.1 == h {
                return None;
            }
            h = t.half.1;
            "halfmove_clock"
        }
        _ => {
            if t.full.1 == f {
                return None;
            }
            f = t.full.1;
            "fullmove_number"
        }
    };
    if !q.is_legal_position() {
        return None;
    }
    Some((a, q.fen_with(h, f), name))
}

pub fn run_c15(ctx: &mut Ctx) {
    let t = ctx.tier;
    // "either succeeds or reports an error": a call that never returns does neither
    ctx.hang_limit_s = Some(10);
    run_prop(ctx, "arbitrary_unicode_strings", || any::<String>(), t.pick(300_000, 4_000_000), |s, st| c15_string(s, st), |s| json!({"string": s}));
    run_prop(ctx, "six_field_shaped_garbage", six_fields, t.pick(900_000, 12_000_000), |s, st| c15_string(s, st), |s| json!({"string": s}));
    run_prop(
        ctx,
        "legal_fens_roundtrip_with_counters",
        || mutfen_strategy(1).prop_map(|mut m| {
            m.edits.clear();
            m
        }),
        t.pick(180_000, 3_000_000),
        |m, st| {
            let Some(s) = mutfen_string(m) else { return Ok(()) };
            st.sample(|| json!({"string": s}));
            if must_accept(&s).is_none() {
                return Err(format!("internal: generated FEN {:?} is not accepted by the strict reader", s));
            }
            c15_string(&s, st)
        },
        |m| json!({"string": mutfen_string(m)}),
    );
    run_prop(
        ctx,
        "fens_of_extreme_legal_material",
        || (prop_oneof![3 => placement_crowd(), 1 => placement_fan()], counter_half(), counter_full()),
        t.pick(60_000, 900_000),
        |(r, half, full), st| {
            let Some(p) = build_placement(r) else {
                st.label("recipe_discarded");
                return Ok(());
            };
            let s = p.fen_with(*half, *full);
            st.sample(|| json!({"string": s}));
            if must_accept(&s).is_none() {
                return Err(format!("HARNESS: generated FEN {:?} is not accepted by the strict reader", s));
            }
            let men = |c: Color, k: Kind| p.sq.iter().filter(|x| **x == Some((c, k))).count();
            for c in [Color::White, Color::Black] {
                for (k, n) in [(Kind::Queen, 9), (Kind::Rook, 10), (Kind::Bishop, 10), (Kind::Knight, 10)] {
                    if men(c, k) == n {
                        st.label(&format!("side_with_{}_{:?}s", n, k));
                    }
                }
            }
            c15_string(&s, st)
        },
        |(r, half, full)| json!({"string": build_placement(r).map(|p| p.fen_with(*half, *full))}),
    );
    run_prop(
        ctx,
        "one_field_twins_loaded_back_to_back",
        twin_strategy,
        t.pick(120_000, 2_000_000),
        |tw, st| {
            let Some((a, b, name)) = twin_strings(tw) else {
                st.label("twin_not_constructible_skip");
                return Ok(());
            };
            st.sample(|| json!({"strings": [a, b], "differing_field": name}));
            st.label(&format!("twin_differs_in_{}", name));
            let mut quiet = Stats::new();
            for s in [&a, &b, &a] {
                if must_accept(s).is_none() {
                    return Err(format!("HARNESS: generated twin FEN {:?} is not accepted by the strict reader", s));
                }
                c15_string(s, &mut quiet).map_err(|m| format!("{} [loaded in the sequence {:?}, {:?}, {:?}]", m, a, b, a))?;
                st.eval();
            }
            st.nontrivial(fp(&(&a, &b)));
            Ok(())
        },
        |tw| json!({"strings": twin_strings(tw).map(|x| vec![x.0.clone(), x.1, x.0])}),
    );
    run_prop(
        ctx,
        "mutated_valid_fens",
        || mutfen_strategy(4),
        t.pick(900_000, 12_000_000),
        |m, st| {
            let Some(s) = mutfen_string(m) else { return Ok(()) };
            st.sample(|| json!({"string": s}));
            c15_string(&s, st)
        },
        |m| json!({"string": mutfen_string(m)}),
    );
    // a small enumerated family of degenerate inputs (terminators, empties, separators only)
    let specials: Vec<String> = {
        let atoms = ["", "\n", "\r", "\r\n", " ", "\t", "/", "-", "w", "0", "8", "k", "\u{feff}", "\u{2028}"];
        let mut v: Vec<String> = atoms.iter().map(|s| s.to_string()).collect();
        for a in atoms {
            for b in atoms {
                v.push(format!("{}{}", a, b));
            }
        }
        for f in ["8/8/8/8/8/8/8/8 w - - 0 1", "rnbqkbnr/pppppppp/8/8/8/8/PPPPPPPP/RNBQKBNR w KQkq - 0 1"] {
            for t in ["\n", "\r\n", "\r", "\n\n", " ", " \n"] {
                v.push(format!("{}{}", f, t));
                v.push(format!("{}{}", t, f));
            }
        }
        v
    };
    let sp = std::sync::Arc::new(specials);
    let sp2 = sp.clone();
    run_enum(ctx, "degenerate_strings_enumerated", sp.len() as u64, true, move |i, st| {
        st.nontrivial_by_construction += 1;
        c15_string(&sp[i as usize], st)
    }, move |i| json!({"string": sp2[i as usize]}));
    // CLI front end, black-box, on generated strings the loader rejects
    let n_cli = t.pick(600, 6000) as usize;
    let mut strings: Vec<String> = generate_values(&six_fields(), ctx.seed ^ 0xC15, n_cli / 2);
    strings.extend(generate_values(&mutfen_strategy(4), ctx.seed ^ 0xC15C, n_cli / 2).iter().filter_map(mutfen_string));
    strings.extend(["\n", "\r\n", "\r", "\n\n", "x\n", "", " ", "-", "--help-me", "a b c d e f", "8/8/8/8/8/8/8/8 w - ax 0 1", "8/8/8/8/8/8/8/8 w - é 0 1", "rnbqkbnr/pppppppp/8/8/8/8/PPPPPPPP/RNBQKBNR w KQkq - 0 300x"].iter().map(|s| s.to_string()));
    // long and densely multi-byte inputs: any byte offset at which a front end might cut or index
    // the echoed input falls inside a character for some of them
    strings.extend(generate_values(&"\\PC{24,110}", ctx.seed ^ 0xC15D, n_cli / 6));
    for n in 0..160usize {
        strings.push(format!("{}é{}", "x".repeat(n), "♜♞ yz"));
        if n % 4 == 0 {
            strings.push(format!("{}♜/8/8/8/8/8/8/8 w - - 0 1", "8".repeat(n)));
        }
    }
    // a valid FEN followed by more fields (a front end that accepts `<fen> moves ...` must not trust them)
    for tail in [" moves e3e4", " moves z9z9", " moves \u{e9}\u{e9}", " moves e2e4 e7e5 xxxx", " moves", " moves a1a1", " moves e2e9q", " bm e2e4;", " moves e7e8k"] {
        strings.push(format!("rnbqkbnr/pppppppp/8/8/8/8/PPPPPPPP/RNBQKBNR w KQkq - 0 1{}", tail));
        strings.push(format!("8/P3k3/8/8/8/8/8/4K3 w - - 12 40{}", tail));
    }
    strings.retain(|s| !s.contains('\0'));
    let strings = std::sync::Arc::new(strings);
    let s2 = strings.clone();
    run_enum(
        ctx,
        "cli_front_end_error_path",
        strings.len() as u64,
        false,
        move |i, st| {
            let s = &strings[i as usize];
            let rejected = !matches!(from_fen_bounded(s), Some(Ok(Ok(()))));
            if !rejected {
                st.label("cli_skipped_loader_accepts");
                return Ok(());
            }
            st.eval();
            if s.split(' ').count() == 6 {
                st.nontrivial(fp(s));
            }
            if i % 50 == 0 {
                st.sample(|| json!({"cli_string": s}));
            }
            cli_check(s)
        },
        move |i| json!({"cli": true, "string": s2[i as usize]}),
    );
}

pub fn replay_c15(case: &Value) -> CaseResult {
    if let Some(seq) = case.get("strings").and_then(|x| x.as_array()) {
        for s in seq.iter().filter_map(|x| x.as_str()) {
            c15_string(s, &mut Stats::new()).map_err(|m| format!("{} [loaded in the sequence {:?}]", m, seq))?;
        }
        return Ok(());
    }
    let s = case.get("string").and_then(|x| x.as_str()).ok_or("no string in replay case")?;
    if case.get("cli").is_some() {
        return cli_check(s);
    }
    if from_fen_bounded(s).is_none() {
        return Err(format!("from_fen did not return within 10 s on {:?} (non-termination)", s));
    }
    c15_string(s, &mut Stats::new())
}
