//! C04 (`position ... moves ...` reconstructs the position) and C05 (position key depends only
//! on the position).
use crate::board::{BoardState, Piece, PieceColor, PieceKind, Point};
use crate::bridge::*;
use crate::draw_table::DrawTable;
use crate::gen::*;
use crate::move_generation::CastlingType;
use crate::oracle::*;
use crate::props::movegen::hasher;
use crate::runner::*;
use crate::uci::{verif_make_move, verif_play_out_position};
use proptest::prelude::*;
use serde_json::{json, Value};
use std::collections::HashMap;

fn names(ms: &[Move]) -> Vec<String> {
    ms.iter().map(mv_name).collect()
}

thread_local! {
    /// half-move clock and full-move number written into the FENs of `position_command` (default 0 1)
    pub static FEN_COUNTERS: std::cell::Cell<(u32, u32)> = std::cell::Cell::new((0, 1));
}
/// the argument vector of a `position` command, exactly as the UCI loop splits it
pub fn position_command(start: &Pos, moves: &[String], use_startpos: bool) -> Vec<String> {
    let mut v = vec!["position".to_string()];
    if use_startpos {
        v.push("startpos".into());
    } else {
        v.push("fen".into());
        let (h, f) = FEN_COUNTERS.with(|c| c.get());
        for f in start.fen_with(h, f).split(' ') {
            v.push(f.to_string());
        }
    }
    if !moves.is_empty() {
        v.push("moves".into());
        v.extend(moves.iter().cloned());
    }
    v
}
pub fn play_out(cmd: &[String]) -> Result<(BoardState, DrawTable), String> {
    let refs: Vec<&str> = cmd.iter().map(|s| s.as_str()).collect();
    let mut dt = DrawTable::new();
    let b = catch(|| {
        dt.clear();
        verif_play_out_position(&refs, hasher(), &mut dt)
    })
    .map_err(|p| format!("`{}` panicked: {}", cmd.join(" "), p))?;
    Ok((b, dt))
}

fn same_board(a: &BoardState, b: &BoardState) -> Vec<String> {
    let mut out = vec![];
    if a.board != b.board {
        out.push("placement".to_string());
    }
    if a.to_move != b.to_move {
        out.push("side to move".into());
    }
    if (a.white_king_side_castle, a.white_queen_side_castle, a.black_king_side_castle, a.black_queen_side_castle)
        != (b.white_king_side_castle, b.white_queen_side_castle, b.black_king_side_castle, b.black_queen_side_castle)
    {
        out.push("castling rights".into());
    }
    if a.pawn_double_move != b.pawn_double_move {
        out.push("en passant target".into());
    }
    if a.white_king_location != b.white_king_location || a.black_king_location != b.black_king_location {
        out.push("cached king squares".into());
    }
    if a.zobrist_key != b.zobrist_key {
        out.push(format!("position key ({:016x} vs {:016x})", a.zobrist_key, b.zobrist_key));
    }
    out
}

fn c04_labels(p: &Pos, m: &Move, st: &mut Stats) -> bool {
    let c = p.classify(m);
    let white = p.stm == Color::White;
    let mut special = true;
    match c {
        MoveClass::Castle => st.label(&format!("castle_{}_{}", if white { "white" } else { "black" }, if file_of(m.to) == 6 { "kingside" } else { "queenside" })),
        MoveClass::EnPassant => st.label(&format!("ep_by_{}", if white { "white" } else { "black" })),
        MoveClass::Promo => st.label(&format!("promo_{}", kind_letter(m.promo.unwrap()))),
        MoveClass::PromoCapture => {
            st.label(&format!("promo_capture_{}", kind_letter(m.promo.unwrap())));
            if [0u8, 7, 56, 63].contains(&m.to) {
                st.label("promo_capture_on_corner");
            }
        }
        MoveClass::DoubleStep => {
            st.label("double_step");
            if p.ep.is_some() {
                st.label("double_step_after_double_step");
            }
            special = p.ep.is_some();
        }
        _ => special = false,
    }
    for (corner, name) in [(0u8, "a1"), (7, "h1"), (56, "a8"), (63, "h8")] {
        let right = match corner {
            0 => p.wq,
            7 => p.wk,
            56 => p.bq,
            _ => p.bk,
        };
        if m.from == corner && p.sq[corner as usize].map(|x| x.1) == Some(Kind::Rook) && right {
            st.label(&format!("rook_with_right_leaves_{}", name));
            special = true;
        }
        if m.to == corner && p.sq[corner as usize].map(|x| x.1) == Some(Kind::Rook) && right {
            st.label(&format!("rook_with_right_captured_on_{}", name));
            special = true;
        }
    }
    special
}

/// C04 on one game: after every prefix the text applier's board equals the oracle position and the
/// generator chain's board (all fields and key); every generated successor printed as text and
/// replayed reproduces itself; `position` on the full list (and on sampled prefixes) equals the
/// chain.
pub fn c04_case(start: &Pos, moves: &[Move], use_startpos: bool, probes: &[u16], st: &mut Stats) -> CaseResult {
    let z = hasher();
    let text: Vec<String> = names(moves);
    let mut p = start.clone();
    let mut gen_b = board_of(start)?; // generator chain
    let mut txt_b = board_of(start)?; // text applier chain
    let mut gen_alive = true;
    let mut special = 0;
    let prefixes_to_probe: Vec<usize> = probes.iter().map(|&c| (c as usize * (moves.len() + 1)) >> 16).chain([moves.len()]).collect();
    for i in 0..=moves.len() {
        st.eval();
        // (a) text applier vs the rules
        let d = diff_board(&txt_b, &p);
        if !d.is_empty() {
            return Err(format!("after `position {} moves {}` the engine's position is wrong: {}", if use_startpos { "startpos".to_string() } else { format!("fen {}", start.fen()) }, text[..i].join(" "), d.join("; ")));
        }
        if txt_b.zobrist_key != scratch_key(&txt_b, z) {
            return Err(format!("after replaying {} from '{}' the position key {:016x} differs from the from-scratch key {:016x}", text[..i].join(" "), start.fen(), txt_b.zobrist_key, scratch_key(&txt_b, z)));
        }
        // (b) text applier vs generator chain
        if gen_alive {
            let d = same_board(&txt_b, &gen_b);
            if !d.is_empty() {
                return Err(format!("replaying {} from '{}' as text and following the engine's generated successors give different positions: {}", text[..i].join(" "), start.fen(), d.join(", ")));
            }
        }
        // the `position` command itself (fresh from_fen + all moves + repetition table)
        if prefixes_to_probe.contains(&i) {
            let (b, _dt) = play_out(&position_command(start, &text[..i], use_startpos))?;
            let d = same_board(&b, &txt_b);
            if !d.is_empty() {
                return Err(format!("`position ... moves {}` from '{}' differs from applying the same moves one by one: {}", text[..i].join(" "), start.fen(), d.join(", ")));
            }
            // (the repetition record filled by the same call is C10's subject, not judged here)
        }
        // (c) every generated successor, printed and replayed, reproduces itself
        // generated from the generator-chain board while it is alive: that board carries the fields
        // a real successor chain carries (last move, promotion piece of the move that led here)
        let parent_for_generation = if gen_alive { &gen_b } else { &txt_b };
        let succ = catch(|| gen_all(parent_for_generation, z)).map_err(|e| format!("generate_moves panicked at '{}': {}", p.fen(), e))?;
        for s in &succ {
            // printed by the engine's own bestmove printer
            let t = engine_bestmove_text(s).map_err(|e| format!("at '{}': {}", p.fen(), e))?;
            if parse_mv(&t).is_none() {
                return Err(format!("at '{}' the engine prints its generated move {} as {:?}, which is not a move in UCI notation", p.fen(), desc_text(s), t));
            }
            let mut copy = txt_b.clone();
            catch(|| verif_make_move(&mut copy, &t, z)).map_err(|e| format!("replaying the engine's own move {} at '{}' panicked: {}", t, p.fen(), e))?;
            let d = same_board(&copy, s);
            if !d.is_empty() {
                return Err(format!("at '{}' the engine's own move {} replayed as text does not reproduce its successor: {}", p.fen(), t, d.join(", ")));
            }
        }
        if i == moves.len() {
            break;
        }
        let m = moves[i];
        if c04_labels(&p, &m, st) {
            special += 1;
        }
        // advance all three
        if gen_alive {
            match gen_all(&gen_b, z).into_iter().find(|s| desc(s).ok() == Some(m)) {
                Some(s) => gen_b = s,
                None => {
                    // "identical to following the engine's own generated successors along the same
                    // moves" presupposes that the successor exists
                    return Err(format!("the legal move {} of the game (played from '{}' after {:?}) has no generated successor: the game cannot be followed along the engine's own successors", text[i], start.fen(), &text[..i]));
                }
            }
        }
        catch(|| verif_make_move(&mut txt_b, &text[i], z)).map_err(|e| format!("applying {} at '{}' panicked: {}", text[i], p.fen(), e))?;
        p = p.apply(&m);
    }
    if special > 0 {
        st.nontrivial(fp(&(start, moves)));
    }
    Ok(())
}

#[derive(Debug, Clone)]
pub struct GameRecipe {
    pub walk: WalkRecipe,
    pub probes: Vec<u16>,
}
fn game_strategy(max_len: usize) -> impl Strategy<Value = GameRecipe> {
    (walk_strategy(max_len), proptest::collection::vec(any::<u16>(), 0..3)).prop_map(|(walk, probes)| GameRecipe { walk, probes })
}
fn is_startpos(p: &Pos) -> bool {
    *p == Pos::startpos()
}

pub fn run_c04(ctx: &mut Ctx) {
    let t = ctx.tier;
    let body = |r: &GameRecipe, st: &mut Stats| {
        let Some((start, moves)) = play_walk(&r.walk) else {
            st.label("recipe_discarded");
            return Ok(());
        };
        let sp = is_startpos(&start);
        if sp {
            st.label("from_startpos");
        }
        st.sample(|| json!({"fen": start.fen(), "moves": names(&moves)}));
        c04_case(&start, &moves, sp, &r.probes, st)
    };
    let tc = |r: &GameRecipe| {
        let mut v = walk_json(&r.walk);
        v["probes"] = json!(r.probes);
        v
    };
    run_prop(ctx, "games_from_corpus_and_constructed_starts", move || game_strategy(t.pick(150, 250)), t.pick(120_000, 900_000), body, tc);
    run_prop(
        ctx,
        "games_from_startpos",
        move || (proptest::collection::vec(any::<u16>(), 0..t.pick(120, 200)), proptest::collection::vec(any::<u16>(), 0..3)).prop_map(|(choices, probes)| GameRecipe { walk: WalkRecipe { start: Start::Corpus(0), choices }, probes }),
        t.pick(18_000, 120_000),
        body,
        tc,
    );
    run_prop(
        ctx,
        "short_games_from_special_starts",
        || {
            (
                prop_oneof![placement_castle().prop_map(Start::Placement), placement_promo().prop_map(Start::Placement), placement_ep().prop_map(Start::Placement), (7usize..22).prop_map(Start::Corpus)],
                proptest::collection::vec(any::<u16>(), 0..10),
                proptest::collection::vec(any::<u16>(), 0..2),
            )
                .prop_map(|(start, choices, probes)| GameRecipe { walk: WalkRecipe { start, choices }, probes })
        },
        t.pick(144_000, 900_000),
        body,
        tc,
    );
}

pub fn replay_c04(case: &Value) -> CaseResult {
    let (start, moves) = parse_game_case(case)?;
    let probes: Vec<u16> = case.get("probes").and_then(|x| x.as_array()).map(|a| a.iter().filter_map(|v| v.as_u64()).map(|v| v as u16).collect()).unwrap_or_default();
    let mut st = Stats::new();
    c04_case(&start, &moves, is_startpos(&start), &probes, &mut st)
}

// ---------------------------------------------------------------------------------------------
// C05

fn key_step_label(p: &Pos, m: &Move, st: &mut Stats) -> bool {
    let c = p.classify(m);
    let mut nt = false;
    match c {
        MoveClass::EnPassant => {
            st.label("step_ep_capture");
            nt = true;
        }
        MoveClass::Promo => {
            st.label("step_promotion");
            nt = true;
        }
        MoveClass::PromoCapture => {
            st.label("step_capture_promotion");
            nt = true;
        }
        MoveClass::Castle => {
            st.label("step_castle");
            nt = true;
            if p.ep.is_some() {
                st.label("step_castle_while_ep_target_set");
            }
        }
        MoveClass::DoubleStep => {
            if p.ep.is_some() {
                st.label("step_double_step_after_double_step");
                nt = true;
            }
        }
        _ => {}
    }
    let target_is_rook_with_right = match m.to {
        0 => p.wq,
        7 => p.wk,
        56 => p.bq,
        63 => p.bk,
        _ => false,
    };
    if target_is_rook_with_right && p.sq[m.to as usize].is_some() {
        st.label("step_right_lost_by_rook_capture");
        nt = true;
    }
    if p.ep.is_some() && c != MoveClass::DoubleStep {
        st.label("step_clears_ep_target");
    }
    nt
}

/// C05 along one history, for all three producers. Each step is judged by its key delta so one wrong
/// step is reported once, at that step.
pub fn c05_case(start: &Pos, moves: &[Move], st: &mut Stats, seen: &mut HashMap<Pos, u64>) -> CaseResult {
    let z = hasher();
    let mut p = start.clone();
    let mut gen_b = board_of(start)?;
    let mut txt_b = gen_b.clone();
    if gen_b.zobrist_key != scratch_key(&gen_b, z) {
        return Err(format!("from_fen('{}') sets the key {:016x} but the from-scratch key of that position is {:016x}", start.fen(), gen_b.zobrist_key, scratch_key(&gen_b, z)));
    }
    let mut gen_alive = true;
    for (i, m) in moves.iter().enumerate() {
        st.eval();
        let nt = key_step_label(&p, m, st);
        let np = p.apply(m);
        // every successor of both generation modes at this position, judged by its key delta
        if gen_alive {
            let base = scratch_key(&gen_b, z);
            for (mode, succ) in [("full", gen_all(&gen_b, z)), ("capture-only", gen_caps(&gen_b, z))] {
                for s in &succ {
                    if (s.zobrist_key ^ gen_b.zobrist_key) != (scratch_key(s, z) ^ base) {
                        return Err(format!(
                            "generator ({} mode): the successor {} of '{}' (history {:?}) has the key {:016x} but the key computed from scratch for that successor is {:016x}",
                            mode,
                            desc_text(s),
                            p.fen(),
                            names(&moves[..i]),
                            s.zobrist_key,
                            scratch_key(s, z) ^ base ^ gen_b.zobrist_key
                        ));
                    }
                }
            }
        }
        // producer 1: generator
        if gen_alive {
            match gen_all(&gen_b, z).into_iter().find(|s| desc(s).ok() == Some(*m)) {
                Some(s) => {
                    if to_pos(&s).ok().as_ref() == Some(&np) {
                        if (s.zobrist_key ^ gen_b.zobrist_key) != (scratch_key(&s, z) ^ scratch_key(&gen_b, z)) || s.zobrist_key != scratch_key(&s, z) {
                            return Err(format!(
                                "generator: after {} from '{}' (history {:?}) the successor's key is {:016x} but the key computed from scratch for that position is {:016x}",
                                mv_name(m),
                                p.fen(),
                                names(&moves[..i]),
                                s.zobrist_key,
                                scratch_key(&s, z)
                            ));
                        }
                        gen_b = s;
                    } else {
                        gen_alive = false; // wrong successor: C02's subject
                        st.label("generator_chain_diverged_stop");
                    }
                }
                None => {
                    gen_alive = false;
                    st.label("generator_does_not_offer_move");
                }
            }
        }
        // producer 2: text applier
        let before = txt_b.clone();
        catch(|| verif_make_move(&mut txt_b, &mv_name(m), z)).map_err(|e| format!("applying {} at '{}' panicked: {}", mv_name(m), p.fen(), e))?;
        if to_pos(&txt_b).ok().as_ref() == Some(&np) {
            if (txt_b.zobrist_key ^ before.zobrist_key) != (scratch_key(&txt_b, z) ^ scratch_key(&before, z)) || txt_b.zobrist_key != scratch_key(&txt_b, z) {
                return Err(format!(
                    "text applier: after {} from '{}' (history {:?}) the key is {:016x} but the key computed from scratch for that position is {:016x}",
                    mv_name(m),
                    p.fen(),
                    names(&moves[..i]),
                    txt_b.zobrist_key,
                    scratch_key(&txt_b, z)
                ));
            }
        } else {
            st.label("text_chain_diverged_stop"); // C04's subject
            return Ok(());
        }
        // producer 3: FEN loader on the new position
        let fb = board_of(&np)?;
        if fb.zobrist_key != scratch_key(&fb, z) {
            return Err(format!("from_fen('{}') sets the key {:016x} but the from-scratch key of that position is {:016x}", np.fen(), fb.zobrist_key, scratch_key(&fb, z)));
        }
        // all producers agree on the same position
        if fb.zobrist_key != txt_b.zobrist_key || (gen_alive && fb.zobrist_key != gen_b.zobrist_key) {
            return Err(format!(
                "the same position '{}' has different keys by route: FEN loader {:016x}, text applier {:016x}, generator {}",
                np.fen(),
                fb.zobrist_key,
                txt_b.zobrist_key,
                if gen_alive { format!("{:016x}", gen_b.zobrist_key) } else { "n/a".into() }
            ));
        }
        // and with every earlier visit of the same position by any route of this worker
        if let Some(&k) = seen.get(&np) {
            st.label("position_revisited_by_another_route");
            if k != fb.zobrist_key {
                return Err(format!("position '{}' was given the key {:016x} earlier and {:016x} now", np.fen(), k, fb.zobrist_key));
            }
        } else if seen.len() < 200_000 {
            seen.insert(np.clone(), fb.zobrist_key);
        }
        if nt {
            st.nontrivial(fp(&(&p, m)));
        }
        p = np;
    }
    Ok(())
}

/// transposition: four plies m1 m2 m3 m4 and a reordering reaching the same position
fn c05_transposition(start: &Pos, moves: &[Move], st: &mut Stats) -> CaseResult {
    if moves.len() < 4 {
        return Ok(());
    }
    let z = hasher();
    let n = moves.len();
    let mut base = start.clone();
    for m in &moves[..n - 4] {
        base = base.apply(m);
    }
    let tail = &moves[n - 4..];
    let route = |order: [usize; 4]| -> Option<(Pos, Vec<Move>)> {
        let mut p = base.clone();
        let mut seq = vec![];
        for &i in &order {
            if !p.legal_moves().contains(&tail[i]) {
                return None;
            }
            p = p.apply(&tail[i]);
            seq.push(tail[i]);
        }
        Some((p, seq))
    };
    let (end, _) = route([0, 1, 2, 3]).ok_or("internal: walk moves not legal")?;
    let keys_of = |seq: &[Move]| -> Result<(u64, u64), String> {
        let mut g = board_of(&base)?;
        let mut t = g.clone();
        for m in seq {
            g = gen_all(&g, z).into_iter().find(|s| desc(s).ok() == Some(*m)).ok_or("move not offered")?;
            catch(|| verif_make_move(&mut t, &mv_name(m), z))?;
        }
        Ok((g.zobrist_key, t.zobrist_key))
    };
    let Ok(k0) = keys_of(tail) else { return Ok(()) };
    for order in [[2, 1, 0, 3], [0, 3, 2, 1], [2, 3, 0, 1]] {
        if let Some((e2, seq)) = route(order) {
            if e2 == end && seq != tail {
                st.eval();
                st.label("transposition_pair");
                st.nontrivial(fp(&(&base, &seq)));
                let Ok(k1) = keys_of(&seq) else { continue };
                if k1.0 != k0.0 || k1.1 != k0.1 {
                    return Err(format!(
                        "two move orders reach the same position '{}' from '{}' but with different keys: {:?} gives generator {:016x} / text {:016x}, {:?} gives {:016x} / {:016x}",
                        end.fen(),
                        base.fen(),
                        names(tail),
                        k0.0,
                        k0.1,
                        names(&seq),
                        k1.0,
                        k1.1
                    ));
                }
            }
        }
    }
    Ok(())
}

/// single-component mutations: two positions differing in exactly one component have different keys
#[derive(Debug, Clone)]
pub struct MutRecipe {
    pub base: PlacementRecipe,
    pub kind: u8,
    pub a: u8,
    pub b: u8,
}
fn mutate(p: &Pos, r: &MutRecipe) -> Option<(Pos, &'static str)> {
    let mut q = p.clone();
    let nonking: Vec<u8> = (0..64u8).filter(|&s| matches!(p.sq[s as usize], Some((_, k)) if k != Kind::King)).collect();
    let empties: Vec<u8> = (0..64u8).filter(|&s| p.sq[s as usize].is_none()).collect();
    match r.kind % 8 {
        0 => {
            // the en passant target is tied to the side to move: flip only positions without one
            if p.ep.is_some() {
                return None;
            }
            q.stm = p.stm.opp();
            Some((q, "side to move flipped"))
        }
        1 => {
            match r.a % 4 {
                0 => q.wk = !q.wk,
                1 => q.wq = !q.wq,
                2 => q.bk = !q.bk,
                _ => q.bq = !q.bq,
            }
            Some((q, "one castling right flipped"))
        }
        2 => {
            // ep file changed / set / cleared (the loader accepts any target square)
            let rank = if p.stm == Color::White { 5 } else { 2 };
            let f = (r.a % 9) as i8;
            q.ep = if f == 8 { None } else { mk(f, rank) };
            if q.ep.map(file_of) == p.ep.map(file_of) {
                return None;
            }
            Some((q, "en passant file changed"))
        }
        3 => {
            let s = *nonking.get(r.a as usize % nonking.len().max(1))?;
            q.sq[s as usize] = None;
            Some((q, "one man removed"))
        }
        4 => {
            let s = *empties.get(r.a as usize % empties.len().max(1))?;
            let k = [Kind::Pawn, Kind::Knight, Kind::Bishop, Kind::Rook, Kind::Queen][r.b as usize % 5];
            q.sq[s as usize] = Some((if r.b & 8 != 0 { Color::White } else { Color::Black }, k));
            Some((q, "one man added"))
        }
        5 => {
            let s = *nonking.get(r.a as usize % nonking.len().max(1))?;
            let t = *empties.get(r.b as usize % empties.len().max(1))?;
            q.sq[t as usize] = q.sq[s as usize];
            q.sq[s as usize] = None;
            Some((q, "one man moved"))
        }
        6 => {
            let s = *nonking.get(r.a as usize % nonking.len().max(1))?;
            let (c, k) = p.sq[s as usize]?;
            q.sq[s as usize] = Some((c.opp(), k));
            Some((q, "one man recoloured"))
        }
        _ => {
            let s = *nonking.get(r.a as usize % nonking.len().max(1))?;
            let (c, k) = p.sq[s as usize]?;
            let nk = [Kind::Pawn, Kind::Knight, Kind::Bishop, Kind::Rook, Kind::Queen][r.b as usize % 5];
            if nk == k {
                return None;
            }
            q.sq[s as usize] = Some((c, nk));
            Some((q, "one man changed kind"))
        }
    }
}
fn c05_mutation(r: &MutRecipe, st: &mut Stats) -> CaseResult {
    let Some(p) = build_placement(&r.base) else { return Ok(()) };
    let Some((q, what)) = mutate(&p, r) else { return Ok(()) };
    st.eval();
    st.label(&format!("mutation: {}", what));
    st.nontrivial(fp(&(&p, &q)));
    let z = hasher();
    let a = BoardState::from_fen(&p.fen()).map_err(|e| e.to_string())?;
    let b = BoardState::from_fen(&q.fen()).map_err(|e| e.to_string())?;
    if a.zobrist_key != scratch_key(&a, z) || b.zobrist_key != scratch_key(&b, z) {
        return Err(format!("from_fen key differs from the from-scratch key at '{}' or '{}'", p.fen(), q.fen()));
    }
    if a.zobrist_key == b.zobrist_key {
        return Err(format!("positions '{}' and '{}' differ ({}) but have the same key {:016x}", p.fen(), q.fen(), what, a.zobrist_key));
    }
    Ok(())
}

/// the 781 constants that can enter a key are pairwise distinct and non-zero
fn c05_constants(ctx: &mut Ctx) {
    let z = hasher();
    let mut vals: Vec<(u64, String)> = vec![];
    for (ci, c) in [PieceColor::White, PieceColor::Black].iter().enumerate() {
        for k in [PieceKind::King, PieceKind::Queen, PieceKind::Rook, PieceKind::Bishop, PieceKind::Knight, PieceKind::Pawn] {
            for r in 2..10 {
                for f in 2..10 {
                    vals.push((z.get_val_for_piece(Piece { color: *c, kind: k }, Point(r, f)), format!("piece colour#{} {:?} at row {} col {}", ci, k, r, f)));
                }
            }
        }
    }
    vals.push((z.get_black_to_move_val(), "black to move".into()));
    vals.push((z.get_val_for_castling(CastlingType::WhiteKingSide), "K right".into()));
    vals.push((z.get_val_for_castling(CastlingType::WhiteQueenSide), "Q right".into()));
    vals.push((z.get_val_for_castling(CastlingType::BlackKingSide), "k right".into()));
    vals.push((z.get_val_for_castling(CastlingType::BlackQueenSide), "q right".into()));
    for f in 2..10 {
        vals.push((z.get_val_for_en_passant(f), format!("en passant file col {}", f)));
    }
    let mut st = Stats::new();
    let mut pairs = 0u64;
    for i in 0..vals.len() {
        st.eval();
        st.nontrivial(fp(&vals[i].1));
        if vals[i].0 == 0 {
            ctx.violation("zobrist_constants_exhaustive", json!({"constant": vals[i].1}), format!("Zobrist constant for {} is zero", vals[i].1));
        }
        for j in i + 1..vals.len() {
            pairs += 1;
            if vals[i].0 == vals[j].0 {
                ctx.violation("zobrist_constants_exhaustive", json!({"a": vals[i].1, "b": vals[j].1}), format!("Zobrist constants for {} and {} are equal", vals[i].1, vals[j].1));
            }
        }
    }
    st.sample(|| json!({"constants": vals.len(), "pairs_compared": pairs}));
    ctx.exhaustive_parts.push(format!("zobrist_constants_exhaustive ({} constants, {} pairs, complete)", vals.len(), pairs));
    ctx.family_done("zobrist_constants_exhaustive", st, json!({"driver": "enumeration", "exhaustive": true, "pairs_compared": pairs}));
}

pub fn run_c05(ctx: &mut Ctx) {
    let t = ctx.tier;
    thread_local! { static SEEN: std::cell::RefCell<HashMap<Pos, u64>> = std::cell::RefCell::new(HashMap::new()); }
    let body = |r: &WalkRecipe, st: &mut Stats| {
        let Some((start, moves)) = play_walk(r) else {
            st.label("recipe_discarded");
            return Ok(());
        };
        st.sample(|| json!({"fen": start.fen(), "moves": names(&moves)}));
        SEEN.with(|s| c05_case(&start, &moves, st, &mut s.borrow_mut()))?;
        c05_transposition(&start, &moves, st)
    };
    run_prop(ctx, "histories_three_producers", move || walk_strategy(t.pick(150, 250)), t.pick(120_000, 900_000), body, walk_json);
    // the FEN loader as a producer on ANY string it accepts (fields in unusual order or spelling
    // included): the key it sets is the from-scratch key of the board it returns, and two strings
    // that load into equal boards get equal keys
    run_prop(
        ctx,
        "loader_key_on_every_accepted_string",
        || prop_oneof![1 => crate::props::fen::six_fields(), 2 => crate::props::fen::mutfen_strategy(3).prop_map(|m| crate::props::fen::mutfen_string(&m).unwrap_or_default()), 1 => ("[KQkq]{1,4}", crate::props::fen::mutfen_strategy(1)).prop_map(|(c, m)| {
            // a valid FEN whose castling field is replaced by the letters in arbitrary order / repetition
            let f = crate::props::fen::mutfen_string(&crate::props::fen::MutFen { edits: vec![], ..m }).unwrap_or_default();
            let mut parts: Vec<String> = f.split(' ').map(|x| x.to_string()).collect();
            if parts.len() == 6 {
                parts[2] = c;
            }
            parts.join(" ")
        })],
        t.pick(300_000, 4_000_000),
        |s, st| {
            st.eval();
            let Ok(Ok(b)) = catch(|| BoardState::from_fen(s)) else {
                st.label("rejected_or_panicked_skip"); // C15's subject
                return Ok(());
            };
            st.label("accepted");
            let k = scratch_key(&b, hasher());
            if b.zobrist_key != k {
                return Err(format!("from_fen({:?}) sets the key {:016x} but the from-scratch key of the board it returns is {:016x}", s, b.zobrist_key, k));
            }
            if s.split(' ').nth(2).map(|c| c.len() >= 2 && c != "KQkq" && c != "KQ" && c != "kq" && c != "Kk" && c != "Qq" && c != "KQk" && c != "KQq" && c != "Kkq" && c != "Qkq" && c != "Kq" && c != "Qk").unwrap_or(false) {
                st.label("castling_field_not_in_canonical_order");
                st.nontrivial(fp(&s));
            } else if to_pos(&b).is_ok() {
                st.nontrivial(fp(&s));
            }
            Ok(())
        },
        |s| json!({"loader_string": s}),
    );
    run_prop(
        ctx,
        "short_histories_from_special_starts",
        || (prop_oneof![placement_castle().prop_map(Start::Placement), placement_promo().prop_map(Start::Placement), placement_ep().prop_map(Start::Placement), (7usize..22).prop_map(Start::Corpus)], proptest::collection::vec(any::<u16>(), 0..10)).prop_map(|(start, choices)| WalkRecipe { start, choices }),
        t.pick(240_000, 1_500_000),
        body,
        walk_json,
    );
    // transposition-dense: short walks from the start position and open positions
    run_prop(
        ctx,
        "transpositions_from_open_positions",
        || (prop_oneof![Just(0usize), Just(7usize), Just(8usize), Just(12usize), 38usize..46].prop_map(Start::Corpus), proptest::collection::vec(any::<u16>(), 4..9)).prop_map(|(start, choices)| WalkRecipe { start, choices }),
        t.pick(240_000, 1_500_000),
        |r, st| {
            let Some((start, moves)) = play_walk(r) else { return Ok(()) };
            c05_transposition(&start, &moves, st)
        },
        walk_json,
    );
    run_prop(
        ctx,
        "single_component_mutations",
        || (prop_oneof![placement_general(), placement_castle(), placement_ep()], any::<u8>(), any::<u8>(), any::<u8>()).prop_map(|(base, kind, a, b)| MutRecipe { base, kind, a, b }),
        t.pick(720_000, 6_000_000),
        |r, st| c05_mutation(r, st),
        |r| {
            let p = build_placement(&r.base);
            let q = p.as_ref().and_then(|p| mutate(p, r));
            json!({"mutation": true, "fen": p.map(|p| p.fen()), "fen2": q.map(|q| q.0.fen())})
        },
    );
    c05_constants(ctx);
}

pub fn replay_c05(case: &Value) -> CaseResult {
    if let Some(s) = case.get("loader_string").and_then(|x| x.as_str()) {
        let b = BoardState::from_fen(s).map_err(|e| e.to_string())?;
        let k = scratch_key(&b, hasher());
        if b.zobrist_key != k {
            return Err(format!("from_fen({:?}) sets the key {:016x} but the from-scratch key of the board it returns is {:016x}", s, b.zobrist_key, k));
        }
        return Ok(());
    }
    if case.get("mutation").is_some() {
        let a = case.get("fen").and_then(|x| x.as_str()).ok_or("no fen")?;
        let b = case.get("fen2").and_then(|x| x.as_str()).ok_or("no fen2")?;
        let ba = BoardState::from_fen(a).map_err(|e| e.to_string())?;
        let bb = BoardState::from_fen(b).map_err(|e| e.to_string())?;
        let z = hasher();
        if ba.zobrist_key != scratch_key(&ba, z) || bb.zobrist_key != scratch_key(&bb, z) {
            return Err("from_fen key differs from the from-scratch key".into());
        }
        if ba.zobrist_key == bb.zobrist_key {
            return Err(format!("different positions '{}' and '{}' have the same key", a, b));
        }
        return Ok(());
    }
    if case.get("constant").is_some() || case.get("a").is_some() {
        return Err("Zobrist constant collision (see message in the replay file); re-run ./check C05 to re-evaluate".into());
    }
    let (start, moves) = parse_game_case(case)?;
    let mut st = Stats::new();
    let mut seen = HashMap::new();
    c05_case(&start, &moves, &mut st, &mut seen)?;
    c05_transposition(&start, &moves, &mut st)
}
