pub mod blackbox;
pub mod fen;
pub mod hash;
pub mod movegen;
pub mod search;
pub mod searchsem;
pub mod statics;
pub mod timectl;
use crate::runner::{CaseResult, Ctx};
use serde_json::Value;

pub fn run(ctx: &mut Ctx) -> bool {
    match ctx.property.as_str() {
        "C01" => {
            ctx.rule = "Cases are positions: every position on generated weighted walks (engine follows its own successors), constructive placements (general, castle, en passant, promotion, check, near-mate families) and the exhaustive castling family E1 / strided or complete en passant family E2. Oracle: independent FIDE rules implementation; engine move multiset must equal the legal move multiset. Non-trivial = the position carries a rule-interaction label (in check, double check, castling legal or denied by attack / king adjacency, en passant pseudo-legal / legal / illegal by pin, promotion available, pinned piece or illegal king walk, checkmate, stalemate); distinct by position.".into();
            ctx.assumptions = vec!["the oracle (harness/src/oracle.rs) implements the FIDE rules: validated each run against six published perft totals and 22 hand-verified rule positions".into()];
            movegen::run_c01_c02(ctx, movegen::Which::C01);
            if ctx.tier == crate::runner::Tier::Thorough {
                crate::fuzzrun::campaign(ctx, "fuzz_movegen", "C01", 40_000, 64);
            }
        }
        "C02" => {
            ctx.rule = "Cases are (parent position, all generated successors of the full mode, and every successor the capture-only mode hands out): parents on walks of the engine's own successors (incl. promotion-rich walks), constructive placements, E1/E2 families. Oracle: apply() of the independent rules implementation; each successor must equal it in placement, side to move, four rights, en passant target, both cached king squares, and carry a promotion piece iff the move promotes; a successor whose board is the position after one legal move while its descriptor names another is a descriptor defect. Non-trivial = parent offers a castling, en passant, promotion, double step, king move or corner move, or was itself reached by a promotion; distinct by (position, parent-was-promotion).".into();
            ctx.assumptions = vec!["oracle validated each run against published perft totals".into()];
            movegen::run_c01_c02(ctx, movegen::Which::C02);
            if ctx.tier == crate::runner::Tier::Thorough {
                crate::fuzzrun::campaign(ctx, "fuzz_movegen", "C02", 40_000, 64);
            }
        }
        "C13" => {
            ctx.rule = "Cases are capture-only generation chains: root reached by the engine's full generation along a walk (often ending in a double step), then CapturesOnly generation recursively, all branches to depth 3 and one chosen line to depth <= 11, the oracle tracking the true position. At every node the descriptor multiset must equal the legal capturing moves and every successor must equal the oracle's apply() incl. key delta. Non-trivial = node with an en passant target set at it or anywhere above it in the chain, or with a capture onto the last rank; distinct by (position, depth in chain).".into();
            ctx.assumptions = vec!["oracle validated each run against published perft totals".into()];
            movegen::run_c13(ctx);
            if ctx.tier == crate::runner::Tier::Thorough {
                crate::fuzzrun::campaign(ctx, "fuzz_movegen", "C13", 40_000, 64);
            }
        }
        "C04" => {
            ctx.rule = "Cases are games: a legal start (startpos, corpus FEN, constructed castle/promotion/en-passant placement) plus a weighted random legal move list in UCI text, 0-200 plies. After EVERY prefix: the text applier's board equals the oracle position (placement, side, rights, en passant target, king squares) and its key equals the from-scratch key; it equals the generator-chain board field for field incl. key; every generated successor printed as text and replayed reproduces itself; `position` on the whole list and on sampled prefixes equals the incremental result. evaluations = prefixes checked. Non-trivial = game containing at least one castling, en passant, promotion, double step answering a double step, or a rook with its right leaving / being captured on a corner; distinct by (start, move list).".into();
            ctx.assumptions = vec!["oracle validated each run against published perft totals".into()];
            hash::run_c04(ctx);
        }
        "C05" => {
            ctx.rule = "Cases are steps of histories: for each move of a generated game the three producers (generator successor, text applier, FEN loader of the resulting position) must each give key == key recomputed from scratch (placement, side, four rights, en passant file) judged per step by the key delta, all three must agree, and any position met again by another route must have the same key; plus explicitly constructed transposition pairs (reordered last four plies reaching the same position), single-component mutations (keys must differ), and the exhaustive pairwise distinctness of the 781 constants. Non-trivial step = en passant capture, promotion, capture-promotion, castling, double step while an en passant target is set, right lost by rook capture; transposition pairs and mutations count as non-trivial cases; distinct by (position, move).".into();
            ctx.assumptions = vec!["scratch key recomputed through ZobristHasher's public getters only".into(), "oracle validated each run against published perft totals".into()];
            hash::run_c05(ctx);
            if ctx.tier == crate::runner::Tier::Thorough {
                crate::fuzzrun::campaign(ctx, "fuzz_movegen", "C05", 40_000, 64);
            }
        }
        "C06" => {
            ctx.rule = "Cases are placements with one king per side (kings may be adjacent; legal or not regarding whose turn it is), loaded through from_fen; is_check is asked for BOTH colours and compared with the oracle's attack test (which goes from each enemy man to the king, the engine goes from the king outwards). Families: the complete three-man basis E4 (both kings on every ordered square pair x one further man of every kind and colour on every square), a strided four-man family (attacker + potential blocker), random sparse / dense / kings-close placements; and boards PRODUCED BY THE GENERATOR (they carry last_move / promotion / ordering fields that must not influence the answer): every successor of both generation modes along walks, en passant and promotion placements, the en passant family with a slider of the capturing side (discovered checks through either vacated square), placements judged right after a search has run on the same thread (nothing a search leaves behind may influence the answer), and - right after generating the moves of a position on the same thread - the boards of its half-made special moves (en passant capturer on the target with the victim still there, king castled with the rook at home, pawn on the last rank). Non-trivial = king on the rim, adjacent kings, an enemy pawn diagonally adjacent to a king (attacking or behind), or a man standing on the line between a king and an enemy slider; distinct by placement.".into();
            ctx.assumptions = vec!["oracle attack test validated through the published perft totals and the 22 rule positions".into()];
            statics::run_c06(ctx);
            statics::run_c06_generated(ctx);
        }
        "C14" => {
            ctx.rule = "Cases are placements (legal or not, up to 9 queens / 10 rooks, bishops, knights / 8 pawns a side) with a side to move. Metamorphic oracle: eval(P) == eval(colour-mirror(P)); eval(P with the other side to move) == -eval(P); eval unchanged when castling rights, en passant target, last_move, pawn_promotion, key and ordering value are overwritten; |eval| < T/2 where T is the smallest score the engine's own info printer reports as `score mate` (observed through the output hook: 99985 on the pinned tree). Families: the complete single-piece basis E5 (12 pieces x 64 squares x 25 game-phase weights) and random sparse / dense / queen-heavy placements. Non-trivial = placement not equal to its own colour-mirror; distinct by (placement, side to move).".into();
            ctx.assumptions = vec!["the mirror transformation is the oracle's (validated as an involution preserving move counts)".into()];
            statics::run_c14(ctx);
        }
        "C15" => {
            ctx.rule = "Cases are strings: arbitrary unicode strings, six-field-shaped strings with per-field garbage (multi-byte characters, over-long rows, digits 0/9, two-byte en passant fields, huge/negative counters), FENs of generated legal positions with half-move clock 0..200 and move number 1..9000 (dense at 255/256/257), and 0-3 character-level mutations of those. Oracle: from_fen never unwinds; when the independent strict reader says the string is a well-formed FEN of a legal position with counters in that range, from_fen must return Ok with exactly that placement, side, rights, en passant target, king squares and the from-scratch key. Black-box: for generated strings the loader rejects, `walleye --fen=<s> -T -d 1` prints the loader's error, exits 0, no panic. Non-trivial = string with exactly six space-separated fields, or an accepted FEN with a counter above 255 or an en passant square; distinct by string.".into();
            ctx.assumptions = vec!["strict FEN reader in harness/src/oracle.rs (independent of board.rs)".into(), "a FEN with counters outside 0..=200 / 1..=9000 or a non-standard castling field order may be accepted or rejected (only no-panic is required)".into()];
            fen::run_c15(ctx);
            if ctx.tier == crate::runner::Tier::Thorough {
                crate::fuzzrun::campaign(ctx, "fuzz_fen", "C15", 5_000_000, 120);
            }
        }
        "C09" => {
            ctx.rule = "Pure part: cases are (wtime, btime, winc, binc, movestogo, side) tuples from a mixture of negative, zero, 1..200 (dense at 99/100/101), 10^2..10^7, powers of two up to 2^62 and i128 extremes, movestogo absent / 1..40 / 10^4 / u32::MAX, plus the exhaustive grid clock 0..=1000 (20000 thorough) x inc {0,1,50,125,1000,60000} x movestogo {absent,1,2,3,10,30,40,200} x both colours. Oracle (upper bounds only, +1 ms rounding, 1e-9 relative for f64 at huge values): (i) result unchanged when the opponent's clock and increment are replaced; (ii) clock > 100 => slice <= 0.8*(clock-100)/mtg with mtg = 30 when absent; (iii) clock <= 100 and inc <= 0 => 0; (iv) slice <= max(clock,0) except the listed known finding F6. parse_go_command is checked on generated token lists (fields in any order, ignorable tokens at key boundaries). Non-trivial = clock within 5 ms of the margin, or the two clocks differ by more than 2x, or an increment-only case; for parsing, a list containing ignored tokens; distinct by parameter tuple. Timed part (real binary): sessions of 1-3 go commands, each measured delay must lie in [plan - 3 ms, plan + 500 ms] (three serial measurements before a violation); a third of the gos are sent after 120 ms of silence (the slice starts when the go command arrives).".into();
            ctx.assumptions = vec!["a more cautious policy than the stated bound is not a violation (the property says 'at most')".into()];
            timectl::run_c09_pure(ctx);
            blackbox::run_c09_timed(ctx);
        }
        "C07" => {
            ctx.level = "fault_enumeration".into();
            ctx.max_shrink_iters = 48;
            ctx.rule = "Fault = expiry of the time allowance at the k-th consultation of the clock (virtual clock hook). For each generated game-like position (corpus walks, endgames with few men so iterations 4-6 and the null-move branch are inside the bound, with and without repetition history built by the engine's own `position` handler) a reference search with a large allowance is run, then EVERY expiry point k = 0..=K and a few sampled deeper ones. Oracle per run: no panic; repetition table restored (key->count, absent == 0); at least one board sent; every sent board is the oracle's position after a legal root move; with no completed evaluation exactly one board, first in the move ordering; lines and moves are a prefix of the reference run's (a larger allowance only extends), prefix length monotone in k; no sentinel in a score. A black-box family gives the real binary an allowance of 2^64 ms and more (beyond what the hook can express) and requires the improvements of the first half second to be a prefix of a direct search's. Another black-box family runs timed searches (20-60 ms) on the real binary and counts sessions whose stderr shows a panic (the two-thread composition; statistical rule: >= 3 sessions, confirmed by a second batch). evaluations = searches executed. Non-trivial = expiry strictly inside the search (0 < k < last consultation); distinct by (game, k).".into();
            ctx.assumptions = vec!["the virtual clock replaces utils::out_of_time's wall clock reading (cfg feature verif); it is monotone like the real clock".into(), "OS scheduling between the two threads of the real binary is not part of this check (see C03/C08)".into()];
            search::run_expiry(ctx, search::Mode::C07);
            blackbox::run_c07_panic_rate(ctx);
            blackbox::run_c07_huge_allowance(ctx);
        }
        "C18" => {
            ctx.max_shrink_iters = 48;
            ctx.rule = "Cases are searches: for generated game-like positions (as C07) the search is run under the virtual clock at every expiry point 0..=K plus sampled deeper ones, and every captured info line of every run is parsed strictly as `info pv <moves> depth D nodes N score (cp X|mate Y) time T`; D >= 1 and non-decreasing, Y != 0 and |Y| <= 100, |X| <= 100000 and never the 9999999 sentinel, first pv move legal in the searched position (oracle), scores strictly increasing within one depth on a unified scale. Black-box part: the same line checks on the real binary's output in timed sessions, and with enormous clocks (slices of 2^64 ms and beyond; the lines of the first half second are judged, then the process is killed). evaluations = searches executed. Non-trivial = a search emitting two or more lines at one depth or a mate score; distinct by game.".into();
            ctx.assumptions = vec!["output captured through the uci::send_to_gui hook (same formatting code path as stdout)".into()];
            search::run_expiry(ctx, search::Mode::C18);
            blackbox::run_c18_blackbox(ctx);
        }
        "C10" => {
            ctx.rule = "Counts: cases are games with a repetition tail (a walk, then 0-25 out-and-back four-ply cycles, optionally cut short; from startpos, corpus and constructed starts) given to the engine's `position` handler; for every distinct position of the game (oracle identity: placement, side, rights, en passant target) the repetition record must hold exactly its multiplicity and the record's total must be plies+1. Search: games in which the side to move has a move into a position that already occurred >= 2 times (2..6 cycles, endgames with a material gap so the loser is often to move); the last info line of every completed depth 1..4 must be cp >= 0 or mate > 0, and the record is left as given. Black-box: `position ... moves ...` + timed go on the real binary against a direct in-process call of the search on the board and record the handler produces - the (depth, nodes, score, first pv move) sequences must agree on their common prefix (so the search really receives the whole game record); and chains: a game ending with two out-and-back cycles that start with the engine's own zero-allowance reply (predicted in-process), `go` (answered with that move), then a timed `go` without a `position` in between for the materially lost side, which can now step into a position that occurred twice - every completed depth must end >= 0. Non-trivial: a history with a position of multiplicity >= 2 (counts); the side to move materially lost (static eval < -150) with such a move available (search); distinct by game.".into();
            ctx.assumptions = vec!["position identity uses the FEN convention for the en passant target (set after every double step), which both the engine and the oracle follow".into(), "the reset between `position` commands inside the UCI loop is exercised black-box (C16 sessions)".into()];
            searchsem::run_c10(ctx);
            blackbox::run_c10_blackbox(ctx);
        }
        "C11" => {
            ctx.rule = "Cases are positions built by a near-mate constructor (cornered king, 1-3 heavy attackers or a seventh-rank pawn, defender's men as self-blocks), variants moving the mating piece back along its own move or replacing a mating N/R/B on the last rank by a pawn about to promote (mates deliverable only by under-promotion), positions one or two plies before those, endgame / game walks, and the exhaustive mini-family of king + minor piece v king + minor piece positions (defending king in a corner region) that contain a mate in one, and a directed family found by filtering a deterministic candidate stream with the oracle: a mate in one beside another checking move after which every reply gives check back and is answered by mate (a longer mate that check extensions prove already in iteration 1). Half of the cases are set up from FENs with a half-move clock of up to 99 and large move numbers. The oracle's solver classifies each (mate in 1, mate in 1 only by under-promotion/castling/en passant, avoidable mate-in-1 threat, unavoidable, stalemate available, none). Under the virtual clock: (i) mate in 1 exists => every move handed back from the first depth-2 line on mates (timeline of the reference run, confirmed by real re-runs), and a search that ends of its own accord before the clock expires must have played a mating move (it was allowed every iteration it wanted; likewise for (ii)); (ii) avoidable threat => from the first depth-3 line on the move played does not allow mate in 1; (iii) `mate N` with N>0 on any line => the solver finds a forced mate in <= N; N<0 on the last line of a completed depth => the side to move is mated within |N|; mate 0 never; |N|>3 or solver budget exceeded = unjudged. Non-trivial = class is not `none`; distinct by position.".into();
            ctx.assumptions = vec!["mate solver: bounded AND/OR search over the oracle's legal moves (self-tested)".into()];
            searchsem::run_c11(ctx);
        }
        "C12" => {
            ctx.rule = "Cases are game-like positions with their game history (walks from the game-like corpus, near-mate placements, half with repetition cycles incl. counts >= 3). Reference model: plain fail-soft alpha-beta without PVS, killers, null move or ordering dependence over the engine's own generate_moves / get_evaluation / is_check with the engine's leaf rules in its order (repetition -> 0, depth 0 in check -> extend, else capture quiescence with stand-pat, no moves -> mate distance or 0), itself validated every run against unpruned minimax on small positions. The engine runs under the virtual clock until a depth-4 line appears; for d = 1,2,3 the last info line of depth d must report exactly the reference value (same cp/mate formatting) and the move sent last at that depth must attain it. Non-trivial = the value differs from the static evaluation after the first-ordered move, or a repetition / mate / stalemate leaf was reached; distinct by game.".into();
            ctx.assumptions = vec!["reference model in harness/src/props/searchsem.rs; agreement of its pruned and unpruned forms is checked on every run".into()];
            searchsem::run_c12(ctx);
        }
        "C03" => {
            ctx.rule = "Cases are UCI sessions against the real release binary: a game-like non-terminal position given as `position fen F`, `position startpos moves ...` or `position fen F0 moves ...` (incl. a promotion-rich family: pawn one step from promotion, opponent able to castle or capture en passant next; a directed promotion-then-castling family; and a declined-en-passant family: double step beside an enemy pawn, quiet piece moves by both sides, then go), then a chain of 1-6 `go` commands with parameters from {bare, ignored tokens only, zero / negative / below-margin clocks, 1-5 ms slice, <= 120 ms slice} x {increment or not} x {movestogo absent or 1..40} in any token order; consecutive gos continue from the engine's previous answer (tracked by the oracle); one go in six is followed at once by a `stop` line. Every eighth engine process (in all black-box checks) is started with front-end options (`--fen <valid FEN>`, `-d N`, `-S`) that belong to the bench / self-play modes and must not leak into the UCI session. Two more families: positions of extreme but legal material with 60 to 218 legal moves, and `position ... moves` lines of 700 to 13500 plies. After each go exactly one line `bestmove <from><to>[qrbn]` must arrive before the `readyok` fencing a following `isready`, the move must be legal in the current position with the promotion letter present iff it promotes. Sessions run 16 at a time, 48 at a time (oversubscribed) and with every engine pinned to ONE core (taskset; search and I/O thread time-slice on a single CPU) to vary thread interleavings. evaluations = go commands. Non-trivial = the answer is a capture, castling, en passant, promotion or a check evasion, or it answers a second-or-later go of a chain; distinct by (position text, index in chain, go text).".into();
            ctx.assumptions = vec!["OS schedules of the two engine threads are sampled under three scheduling regimes (free, oversubscribed, single core), not enumerated; the deterministic half (every board the search can hand back at every expiry point is a legal root successor) is C07".into()];
            blackbox::run_c03(ctx);
        }
        "C08" => {
            ctx.rule = "Cases are UCI sessions against the real binary: a position (game-like, or a checkmate / stalemate reached by playing finishing moves from near-mate constructions) + one `go` (slices 0-250 ms, movestogo >= 1 or absent) ; the `bestmove` (legal move, or `0000`/`(none)` when the game is over) must arrive within plan + 500 ms where plan is the engine's own calculate_time_slice for that command; then `isready` must be answered within 1 s, a fresh `position` + `go` must be served with a legal move and `quit` must end the process (a panic message on stderr is quoted as context in a report but is by itself C07's subject, not C08's). Six in ten sessions start with option lines followed by isready (`setoption name Ponder value true`, after which `bestmove X ponder Y` is accepted; `Hash` 1 / 64 / 256 / 1024; the `Clear Hash` button): what an option costs must be paid at `isready`, not at `go`. On finished games half of the cases carry clocks planning a slice of seconds (answer at once anyway); the follow-up `go` has a zero allowance and its delay counts against the same bound. A latency miss is re-measured twice serially; only three misses make a violation; a missing answer is detected after plan + 10 s. Non-trivial = terminal position, or a slice > 0; distinct by (position, go). A second family uses constructed legal positions with very large capture trees (random swarms of up to seven queens or rooks a side, and balanced lattices of eight a side on two bands of alternating squares where every man is attacked and defended; side to move possibly in check) and slices of 0-130 ms given in three clock forms: one quiescence search there costs seconds, so the answer is on time only if the clock is consulted inside it (non-trivial there = at least eight heavy men). A third, small family uses slices of 6-8 s (three clock forms) run side by side: an overhead that grows with the slice shows only there; two of three of its positions are balanced lattices with a smothered-mate gadget (the search finds the mate in one, spends seconds on the capture trees of the other root moves and ends long before the slice does).".into();
            ctx.assumptions = vec!["material is limited to what promotions can produce (at most eight queens or rooks a side besides the king)".into(), "schedules are sampled (<= 8 engines at a time)".into()];
            blackbox::run_c08(ctx);
            blackbox::run_c08_swarm(ctx);
            blackbox::run_c08_long(ctx);
        }
        "C16" => {
            ctx.rule = "Cases are UCI sessions: 0-25 well-formed commands of earlier traffic (positions with move lists and repetition cycles, go with slices <= 30 ms, ucinewgame, setoption incl. the logging option, isready, ignorable lines; in a third of the cases also the probe's own position line followed by a go), then the probe (one in eight: the bare `position startpos` without a move list) `position X` + `go` (zero allowance) + `position X` + `go` (40-120 ms) sent twice. Oracle (differential): the zero-allowance bestmove equals that of a fresh process given only the probe; the timed runs' sequences of (depth, nodes, score, first pv move) agree with the fresh process and with each other on their common prefix. A second family plays the normal flow of a game: the engine searches P with a real slice, the game continues with its move and the reply it expected (second pv move), and `position P moves b r` + go must be answered like a fresh engine. A third family puts MANY searches between two probes of the same position: probe, then 126-130 / 253-259 / 509-515 searches of other positions (zero allowance, fenced every 64), then the probe again, both compared with a fresh process - the counts straddle the 7-, 8- and 9-bit limits of anything the session might count or age; in half of those sessions a timed search of a short forced mate (it runs through all its iterations and ends of its own accord) is followed directly by a TIMED probe, of the session's position and of a position related to the finished search (same material, one man shifted or a pawn added). In a third of the sessions the probe follows the earlier traffic without a quiescing pause. A difference must reproduce in one (two) further complete attempts. Non-trivial = earlier traffic containing a go and either a long move list or the probe's own position line, or a continuation round; distinct by session.".into();
            ctx.assumptions = vec!["the timed bestmove itself is not compared (it legitimately depends on where the clock cuts)".into()];
            blackbox::run_c16(ctx);
            blackbox::run_c16_continuation(ctx);
            blackbox::run_c16_many(ctx);
        }
        "C17" => {
            ctx.rule = "Cases are UCI sessions: after the handshake, a position, then 0-10 lines the engine does not understand (empty, blanks / tabs / unicode spaces, random words, `uci` again, `stop`, `ponderhit`, `debug on`, wrong-case commands, 200-600 character lines, single words of 1-64 KiB whose tail at a power-of-two byte offset spells a command, lines of up to 30000 multi-byte characters, unicode), bursts of 300 to 300000 consecutive blank lines or of 260 to 70000 distinct unknown lines (two sessions in five), real commands written with surplus whitespace, `isready` in between (must always give `readyok`), the zero-allowance answer re-asked mid-way and after the last ignorable line (must be unchanged), a `go` with unknown tokens at key boundaries and a real 30-90 ms slice (must take the planned time and answer legally), then, in two thirds of the sessions, a timed go followed AT ONCE by `position <another position>`, an ignorable line and (a quarter of those) `stop` - lines that arrive while the engine is thinking: exactly one legal bestmove for the go, and afterwards the zero-allowance answer is the one of the other position; then one of eight endings: quit when idle, quit right after go, stdin closed when idle / right after go (pending bestmove must still be printed) / before `uci` / after a blank line / after an unterminated whitespace fragment / after an `isready` without line terminator (must still be answered); ignorable lines include words that merely start with a command name (`gobble`, `positional`, `quitting`); the process must end within slice + 1 s (+1.5 s grace), observed, not killed. Non-trivial = >= 3 ignorable lines or an end-of-input ending; distinct by session.".into();
            ctx.assumptions = vec!["outside the generated domain on purpose: invalid UTF-8, a bare `position`, non-numeric clock values, movestogo 0 (the statement does not list them as tolerated)".into()];
            blackbox::run_c17(ctx);
        }
        _ => return false,
    }
    true
}

pub fn replay(prop: &str, _family: &str, case: &Value) -> CaseResult {
    // fuzz artifacts: decoded with the same function the fuzz target uses, checked without libFuzzer
    if let Some(bytes) = crate::fuzzrun::bytes_of(case) {
        if prop == "C15" {
            return match std::str::from_utf8(&bytes) {
                Ok(s) => fen::c15_string(s, &mut crate::runner::Stats::new()),
                Err(_) => Ok(()),
            };
        }
        let Some((start, choices)) = crate::fuzzdecode::decode_movegen(&bytes) else { return Ok(()) };
        let mut p = start.clone();
        let mut moves = vec![];
        for &c in &choices {
            let mut ms = p.legal_moves();
            if ms.is_empty() {
                break;
            }
            ms.sort();
            let m = crate::gen::pick_weighted(&p, &ms, c);
            p = p.apply(&m);
            moves.push(m);
        }
        let mut st = crate::runner::Stats::new();
        return match prop {
            "C01" => movegen::walk_check(movegen::Which::C01, &start, &moves, &mut st),
            "C02" => movegen::walk_check(movegen::Which::C02, &start, &moves, &mut st),
            "C05" => hash::c05_case(&start, &moves, &mut st, &mut std::collections::HashMap::new()),
            "C13" => movegen::c13_case_depth(&start, &moves, &[0, 0, 0, 0], 2, &mut st),
            _ => Err(format!("no fuzz replay for property {}", prop)),
        };
    }
    match prop {
        "C01" => movegen::replay_c01_c02(movegen::Which::C01, case),
        "C02" => movegen::replay_c01_c02(movegen::Which::C02, case),
        "C13" => movegen::replay_c13(case),
        "C04" => hash::replay_c04(case),
        "C06" => statics::replay_c06(case),
        "C14" => statics::replay_c14(case),
        "C15" => fen::replay_c15(case),
        "C10" if case.get("uci_vs_direct").is_some() || case.get("second_go").is_some() => blackbox::replay_c10_blackbox(case),
        "C10" => searchsem::replay_c10(case),
        "C11" => searchsem::replay_c11(case),
        "C12" => searchsem::replay_c12(case),
        "C07" if case.get("stderr_panic_rate").is_some() => blackbox::replay_c07_panic_rate(case),
        "C07" if case.get("huge_allowance").is_some() => blackbox::replay_c07_huge(case),
        "C07" => search::replay_expiry(case, search::Mode::C07),
        "C18" if case.get("blackbox").is_some() => blackbox::replay_go_session(case, true),
        "C18" => search::replay_expiry(case, search::Mode::C18),
        "C09" if case.get("timed").is_some() => blackbox::replay_c09_timed(case),
        "C09" => timectl::replay_c09_pure(case).unwrap_or_else(|| Err("unknown C09 replay case".into())),
        "C03" => blackbox::replay_go_session(case, false),
        "C08" => blackbox::replay_c08(case),
        "C16" => blackbox::replay_c16(case),
        "C17" => blackbox::replay_c17(case),
        "C05" => hash::replay_c05(case),
        _ => Err(format!("no replay for property {}", prop)),
    }
}
