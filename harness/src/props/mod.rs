pub mod movegen;
use crate::runner::{CaseResult, Ctx};
use serde_json::Value;

pub fn run(ctx: &mut Ctx) -> bool {
    match ctx.property.as_str() {
        "C01" => {
            ctx.rule = "Cases are positions: every position on generated weighted walks (engine follows its own successors), constructive placements (general, castle, en passant, promotion, check, near-mate families) and the exhaustive castling family E1 / strided or complete en passant family E2. Oracle: independent FIDE rules implementation; engine move multiset must equal the legal move multiset. Non-trivial = the position carries a rule-interaction label (in check, double check, castling legal or denied by attack / king adjacency, en passant pseudo-legal / legal / illegal by pin, promotion available, pinned piece or illegal king walk, checkmate, stalemate); distinct by position.".into();
            ctx.assumptions = vec!["the oracle (harness/src/oracle.rs) implements the FIDE rules: validated each run against six published perft totals and 22 hand-verified rule positions".into()];
            movegen::run_c01_c02(ctx, movegen::Which::C01);
        }
        "C02" => {
            ctx.rule = "Cases are (parent position, all generated successors): parents on walks of the engine's own successors (incl. promotion-rich walks), constructive placements, E1/E2 families. Oracle: apply() of the independent rules implementation; each successor must equal it in placement, side to move, four rights, en passant target, both cached king squares, and carry a promotion piece iff the move promotes. Non-trivial = parent offers a castling, en passant, promotion, double step, king move or corner move, or was itself reached by a promotion; distinct by (position, parent-was-promotion).".into();
            ctx.assumptions = vec!["oracle validated each run against published perft totals".into()];
            movegen::run_c01_c02(ctx, movegen::Which::C02);
        }
        "C13" => {
            ctx.rule = "Cases are capture-only generation chains: root reached by the engine's full generation along a walk (often ending in a double step), then CapturesOnly generation recursively, all branches to depth 3 and one chosen line to depth <= 11, the oracle tracking the true position. At every node the descriptor multiset must equal the legal capturing moves and every successor must equal the oracle's apply() incl. key delta. Non-trivial = node with an en passant target set at it or anywhere above it in the chain, or with a capture onto the last rank; distinct by (position, depth in chain).".into();
            ctx.assumptions = vec!["oracle validated each run against published perft totals".into()];
            movegen::run_c13(ctx);
        }
        _ => return false,
    }
    true
}

pub fn replay(prop: &str, _family: &str, case: &Value) -> CaseResult {
    match prop {
        "C01" => movegen::replay_c01_c02(movegen::Which::C01, case),
        "C02" => movegen::replay_c01_c02(movegen::Which::C02, case),
        "C13" => movegen::replay_c13(case),
        _ => Err(format!("no replay for property {}", prop)),
    }
}
