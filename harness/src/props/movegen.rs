//! C01 (move set), C02 (successors and descriptors), C13 (capture-only generation).
use crate::board::BoardState;
use crate::bridge::*;
use crate::gen::*;
use crate::oracle::*;
use crate::runner::*;
use proptest::prelude::*;
use serde_json::{json, Value};

pub fn hasher() -> &'static crate::zobrist::ZobristHasher {
    static Z: std::sync::OnceLock<crate::zobrist::ZobristHasher> = std::sync::OnceLock::new();
    Z.get_or_init(crate::zobrist::ZobristHasher::create_zobrist_hasher)
}

fn names(ms: &[Move]) -> Vec<String> {
    ms.iter().map(mv_name).collect()
}

/// record labels of a position; returns true when it is non-trivial by C01's rule (carries at
/// least one rule-interaction label)
pub fn label_position(p: &Pos, st: &mut Stats) -> bool {
    let ls = position_labels(p);
    let mut nt = false;
    for l in &ls {
        st.label(l);
        if is_interaction_label(l) {
            nt = true;
        }
    }
    nt
}

/// C01 at one node: the multiset of descriptors of `generate_moves(AllMoves)` equals the oracle's
/// legal moves (both directions, duplicates included). Returns the successors.
pub fn c01_node(b: &BoardState, p: &Pos, caps_only: bool) -> Result<Vec<BoardState>, String> {
    let z = hasher();
    let succ = if caps_only { gen_caps(b, z) } else { gen_all(b, z) };
    let mut got: Vec<Move> = Vec::with_capacity(succ.len());
    for s in &succ {
        got.push(desc(s).map_err(|e| format!("at {}: {}", p.fen(), e))?);
    }
    let mut want = p.legal_moves();
    if caps_only {
        want.retain(|m| p.is_capture(m));
    }
    got.sort();
    want.sort();
    if got != want {
        let extra: Vec<Move> = got.iter().filter(|m| !want.contains(m)).cloned().collect();
        let missing: Vec<Move> = want.iter().filter(|m| !got.contains(m)).cloned().collect();
        let mut dups = vec![];
        for w in got.windows(2) {
            if w[0] == w[1] && !dups.contains(&w[0]) {
                dups.push(w[0]);
            }
        }
        return Err(format!(
            "{} generation at '{}': illegal/extra moves {:?}, missing legal moves {:?}, duplicated {:?} (engine {} moves, rules {} moves)",
            if caps_only { "capture-only" } else { "full" },
            p.fen(),
            names(&extra),
            names(&missing),
            names(&dups),
            got.len(),
            want.len()
        ));
    }
    Ok(succ)
}

/// C02 at one node: every successor whose descriptor names a legal move equals the oracle's
/// position after that move in every field; promotion flag iff the move promotes.
pub fn c02_node(b: &BoardState, p: &Pos, succ: &[BoardState], check_key: bool) -> Result<(), String> {
    let z = hasher();
    let legal = p.legal_moves();
    for s in succ {
        let d = desc(s).map_err(|e| format!("successor of '{}': {}", p.fen(), e))?;
        if !legal.contains(&d) {
            // a descriptor that differs from a legal move only in the promotion field is a
            // descriptor defect (C02); any other illegal move is C01's subject and skipped here
            if let Some(l) = legal.iter().find(|l| l.from == d.from && l.to == d.to) {
                let promotes = l.promo.is_some();
                return Err(format!(
                    "successor of '{}' carries the descriptor {} but the move {}{} {} (promotion letter must be present iff the move promotes)",
                    p.fen(),
                    mv_name(&d),
                    sq_name(d.from),
                    sq_name(d.to),
                    if promotes { "is a promotion and needs one of q/r/b/n" } else { "does not promote" }
                ));
            }
            // the board may still be the position after some legal move: then the successor is
            // right and its descriptor names another move - a descriptor defect (C02)
            if let Some(m) = legal.iter().find(|m| diff_board(s, &p.apply(m)).is_empty()) {
                return Err(format!("successor of '{}' is the position after {} but its descriptor names {}", p.fen(), mv_name(m), mv_name(&d)));
            }
            continue;
        }
        let want = p.apply(&d);
        let diffs = diff_board(s, &want);
        if !diffs.is_empty() {
            return Err(format!("successor of '{}' after {}: {}", p.fen(), mv_name(&d), diffs.join("; ")));
        }
        if let Some(pp) = s.pawn_promotion {
            if col_of(pp.color) != p.stm {
                return Err(format!("successor of '{}' after {}: promotion piece has the wrong colour", p.fen(), mv_name(&d)));
            }
        }
        if check_key && (s.zobrist_key ^ b.zobrist_key) != (scratch_key(s, z) ^ scratch_key(b, z)) {
            return Err(format!(
                "successor of '{}' after {}: position key changed by {:016x} but the two positions' from-scratch keys differ by {:016x}",
                p.fen(),
                mv_name(&d),
                s.zobrist_key ^ b.zobrist_key,
                scratch_key(s, z) ^ scratch_key(b, z)
            ));
        }
    }
    Ok(())
}

fn c02_nontrivial(p: &Pos, parent_was_promo: bool, st: &mut Stats) -> bool {
    let legal = p.legal_moves();
    let mut nt = parent_was_promo;
    if parent_was_promo {
        st.label("parent_was_promotion");
    }
    for m in &legal {
        let c = p.classify(m);
        let corner = [0u8, 7, 56, 63].contains(&m.from) || [0u8, 7, 56, 63].contains(&m.to);
        let king = p.sq[m.from as usize].map(|x| x.1) == Some(Kind::King);
        match c {
            MoveClass::Castle => st.label("succ_castle"),
            MoveClass::EnPassant => st.label("succ_ep"),
            MoveClass::Promo => st.label("succ_promo"),
            MoveClass::PromoCapture => st.label("succ_promo_capture"),
            MoveClass::DoubleStep => st.label("succ_double_step"),
            _ => {}
        }
        if corner {
            st.label("succ_corner_move");
        }
        if parent_was_promo && matches!(c, MoveClass::Castle | MoveClass::EnPassant) {
            st.label("castle_or_ep_after_promotion_parent");
        }
        if c != MoveClass::Quiet && c != MoveClass::Capture || corner || king {
            nt = true;
        }
    }
    nt
}

#[derive(Copy, Clone, PartialEq)]
pub enum Which {
    C01,
    C02,
}

/// Follow `moves` from `start`, the engine side walking its OWN generated successors, the oracle
/// tracking the true position; check every position on the path.
pub fn walk_check(which: Which, start: &Pos, moves: &[Move], st: &mut Stats) -> CaseResult {
    let mut b = board_of(start)?;
    let mut p = start.clone();
    let mut parent_was_promo = false;
    let mut i = 0;
    loop {
        // the chain is only a subject while the engine's board describes the true position; a
        // divergence is reported by C02, not re-reported downstream
        if which == Which::C01 && to_pos(&b).ok().as_ref() != Some(&p) {
            st.label("chain_diverged_stop");
            return Ok(());
        }
        let succ = match which {
            Which::C01 => {
                let s = c01_node(&b, &p, false)?;
                if label_position(&p, st) {
                    st.nontrivial(fp(&p));
                }
                s
            }
            Which::C02 => {
                let s = gen_all(&b, hasher());
                c02_node(&b, &p, &s, false)?;
                let sc = gen_caps(&b, hasher());
                c02_node(&b, &p, &sc, false).map_err(|m| format!("{} [capture-only generation]", m))?;
                if c02_nontrivial(&p, parent_was_promo, st) {
                    st.nontrivial(fp(&(&p, parent_was_promo)));
                }
                s
            }
        };
        st.eval();
        if i >= moves.len() {
            return Ok(());
        }
        let m = moves[i];
        i += 1;
        match succ.iter().find(|s| desc(s).ok() == Some(m)) {
            Some(s) => {
                b = s.clone();
                parent_was_promo = m.promo.is_some();
                p = p.apply(&m);
            }
            None => {
                // the engine does not offer this legal move: C01's subject (already reported there)
                st.label("move_not_offered_stop");
                return Ok(());
            }
        }
    }
}

fn game_json(start: &Pos, moves: &[Move]) -> Value {
    json!({"fen": start.fen(), "moves": names(moves)})
}

// ---------------------------------------------------------------------------------------------
// exhaustive families

/// E1: the castling family. Index -> position (or None when the combination is not a legal position)
pub fn e1_decode(i: u64) -> Option<Pos> {
    let mut i = i;
    let own = (i % 6) as usize;
    i /= 6;
    let xk = [Kind::Queen, Kind::Rook, Kind::Bishop, Kind::Knight, Kind::Pawn][(i % 5) as usize];
    i /= 5;
    let xs = (i % 64) as usize;
    i /= 64;
    let ek = (i % 64) as usize;
    i /= 64;
    let wing = i % 2;
    i /= 2;
    let us = if i % 2 == 0 { Color::White } else { Color::Black };
    let home: usize = if us == Color::White { 4 } else { 60 };
    let rook: usize = if wing == 0 { home + 3 } else { home - 4 };
    if ek == home || ek == rook || xs == home || xs == rook || xs == ek {
        return None;
    }
    if xk == Kind::Pawn && (xs / 8 == 0 || xs / 8 == 7) {
        return None;
    }
    let mut p = Pos::empty();
    p.sq[home] = Some((us, Kind::King));
    p.sq[rook] = Some((us, Kind::Rook));
    p.sq[ek] = Some((us.opp(), Kind::King));
    p.sq[xs] = Some((us.opp(), xk));
    if own > 0 {
        // an own knight on one of the five squares of the back rank between/around king and rooks
        let os = [home - 3, home - 2, home - 1, home + 1, home + 2][own - 1];
        if p.sq[os].is_some() {
            return None;
        }
        p.sq[os] = Some((us, Kind::Knight));
    }
    p.stm = us;
    match (us, wing) {
        (Color::White, 0) => p.wk = true,
        (Color::White, _) => p.wq = true,
        (Color::Black, 0) => p.bk = true,
        _ => p.bq = true,
    }
    if p.is_legal_position() {
        Some(p)
    } else {
        None
    }
}
pub const E1_SPACE: u64 = 6 * 5 * 64 * 64 * 2 * 2;

/// E2: the en passant family: colour, capturing file and direction, both kings anywhere, one enemy
/// slider anywhere.
pub fn e2_decode(i: u64) -> Option<Pos> {
    let mut i = i;
    let sk = [Kind::Rook, Kind::Bishop, Kind::Queen][(i % 3) as usize];
    i /= 3;
    let ss = (i % 64) as usize;
    i /= 64;
    let k_them = (i % 64) as usize;
    i /= 64;
    let k_us = (i % 64) as usize;
    i /= 64;
    let dir: i8 = if i % 2 == 0 { -1 } else { 1 };
    i /= 2;
    let file = (i % 8) as i8;
    i /= 8;
    let us = if i % 2 == 0 { Color::White } else { Color::Black };
    // `us` captures: the enemy pawn has just double-stepped onto our fifth rank on `file`+dir
    let r5 = if us == Color::White { 4 } else { 3 };
    let r6 = if us == Color::White { 5 } else { 2 };
    let ours = mk(file, r5)?;
    let theirs = mk(file + dir, r5)?;
    let target = mk(file + dir, r6)?;
    let mut p = Pos::empty();
    p.sq[ours as usize] = Some((us, Kind::Pawn));
    p.sq[theirs as usize] = Some((us.opp(), Kind::Pawn));
    for s in [k_us, k_them, ss] {
        if p.sq[s].is_some() || s == target as usize {
            return None;
        }
    }
    if k_us == k_them || k_us == ss || k_them == ss {
        return None;
    }
    p.sq[k_us] = Some((us, Kind::King));
    p.sq[k_them] = Some((us.opp(), Kind::King));
    p.sq[ss] = Some((us.opp(), sk));
    p.stm = us;
    p.ep = Some(target);
    if p.is_legal_position() {
        Some(p)
    } else {
        None
    }
}
pub const E2_SPACE: u64 = 3 * 64 * 64 * 64 * 2 * 8 * 2;

fn enum_node(which: Which, p: &Pos, st: &mut Stats) -> CaseResult {
    let b = board_of(p)?;
    match which {
        Which::C01 => {
            c01_node(&b, p, false)?;
            if label_position(p, st) {
                st.nontrivial(fp(p));
            }
        }
        Which::C02 => {
            let s = gen_all(&b, hasher());
            c02_node(&b, p, &s, false)?;
            // the successors of the capture-only mode are successors too (which of them must exist
            // is C13's subject; each one that is handed out must be the right position)
            let sc = gen_caps(&b, hasher());
            c02_node(&b, p, &sc, false).map_err(|m| format!("{} [capture-only generation]", m))?;
            if c02_nontrivial(p, false, st) {
                st.nontrivial(fp(p));
            }
        }
    }
    Ok(())
}

fn placement_family<S: Strategy<Value = PlacementRecipe>>(ctx: &mut Ctx, which: Which, name: &str, strat: fn() -> S, cases: u32) {
    run_prop(
        ctx,
        name,
        strat,
        cases,
        move |r, st| {
            let Some(p) = build_placement(r) else {
                st.label("recipe_discarded_both_in_check_or_adjacent");
                return Ok(());
            };
            st.eval();
            st.sample(|| json!({"fen": p.fen()}));
            enum_node(which, &p, st)
        },
        recipe_json,
    );
}

pub fn run_c01_c02(ctx: &mut Ctx, which: Which) {
    let t = ctx.tier;
    // G1: walks on the engine's own successors
    run_prop(
        ctx,
        "walk_on_generated_successors",
        move || walk_strategy(t.pick(120, 200)),
        t.pick(24_000, 270_000),
        move |r, st| {
            let Some((start, moves)) = play_walk(r) else {
                st.label("recipe_discarded");
                return Ok(());
            };
            st.sample(|| game_json(&start, &moves));
            walk_check(which, &start, &moves, st)
        },
        walk_json,
    );
    // promotion-heavy walks: short walks from promotion-rich starts so that a parent that was
    // itself a promotion is frequent
    run_prop(
        ctx,
        "walk_promotion_rich",
        || (prop_oneof![(17usize..22).prop_map(Start::Corpus), placement_promo().prop_map(Start::Placement)], proptest::collection::vec(any::<u16>(), 0..12)).prop_map(|(start, choices)| WalkRecipe { start, choices }),
        t.pick(32_000, 360_000),
        move |r, st| {
            let Some((start, moves)) = play_walk(r) else {
                st.label("recipe_discarded");
                return Ok(());
            };
            st.sample(|| game_json(&start, &moves));
            walk_check(which, &start, &moves, st)
        },
        walk_json,
    );
    placement_family(ctx, which, "placement_general", placement_general, t.pick(240_000, 3_000_000));
    placement_family(ctx, which, "placement_castle", placement_castle, t.pick(240_000, 3_000_000));
    placement_family(ctx, which, "placement_ep", placement_ep, t.pick(240_000, 3_000_000));
    placement_family(ctx, which, "placement_promo", placement_promo, t.pick(180_000, 2_000_000));
    placement_family(ctx, which, "placement_checks", placement_checks, t.pick(240_000, 3_000_000));
    placement_family(ctx, which, "placement_near_mate", placement_near_mate, t.pick(120_000, 1_000_000));
    placement_family(ctx, which, "placement_extreme_legal_material", placement_crowd, t.pick(60_000, 800_000));
    placement_family(ctx, which, "placement_queen_fans_120_to_218_moves", placement_fan, t.pick(8_000, 120_000));
    if which == Which::C01 {
        // black-box perft of the shipped binary on generated positions
        run_prop(
            ctx,
            "release_binary_perft_cli",
            || (prop_oneof![placement_general(), placement_castle(), placement_ep(), placement_promo()], 1u32..4),
            t.pick(160, 2_000),
            |(r, depth), st| {
                let Some(p) = build_placement(r) else { return Ok(()) };
                if p.count() > 14 && *depth == 3 {
                    return Ok(()); // keep the u32 node counter of the front end far from overflow
                }
                st.eval();
                if label_position(&p, st) {
                    st.nontrivial(fp(&(&p, depth)));
                }
                st.sample(|| json!({"fen": p.fen(), "cli_perft_depth": depth}));
                cli_perft(&p, *depth)
            },
            |(r, depth)| json!({"fen": build_placement(r).map(|p| p.fen()), "cli_perft_depth": depth}),
        );
    }
    // E1 complete
    run_enum(
        ctx,
        "E1_castling_family_exhaustive",
        E1_SPACE,
        true,
        move |i, st| {
            let Some(p) = e1_decode(i) else { return Ok(()) };
            st.eval();
            if i % 50_021 == 0 {
                st.sample(|| json!({"fen": p.fen()}));
            }
            enum_node(which, &p, st)
        },
        |i| json!({"fen": e1_decode(i).map(|p| p.fen())}),
    );
    // E2: sampled by a fixed stride in quick, complete in thorough
    let stride: u64 = t.pick(5, 1);
    let offset = if stride > 1 { ctx.seed % stride } else { 0 };
    run_enum(
        ctx,
        if stride == 1 { "E2_en_passant_family_exhaustive" } else { "E2_en_passant_family_strided" },
        E2_SPACE / stride,
        stride == 1,
        move |j, st| {
            let i = j * stride + offset;
            let Some(p) = e2_decode(i) else { return Ok(()) };
            st.eval();
            if j % 400_009 == 0 {
                st.sample(|| json!({"fen": p.fen()}));
            }
            enum_node(which, &p, st)
        },
        move |j| json!({"fen": e2_decode(j * stride + offset).map(|p| p.fen())}),
    );
}

/// C01, black-box: the release binary's own perft front end (`walleye -T --depth N --fen F`) prints
/// the number of generated positions summed over plies 1..N; it must equal the oracle's
/// perft(1)+...+perft(N). Exercises the shipped (LTO, hooks off) artefact.
pub fn cli_perft(p: &Pos, depth: u32) -> CaseResult {
    let bin = std::env::var("WALLEYE_BIN").map_err(|_| "HARNESS: WALLEYE_BIN not set".to_string())?;
    static N: std::sync::atomic::AtomicU64 = std::sync::atomic::AtomicU64::new(0);
    let dir = format!("{}/run/perft_{}_{}", std::env::var("VERIF_CACHE").unwrap_or_else(|_| "/verif/.cache".into()), std::process::id(), N.fetch_add(1, std::sync::atomic::Ordering::Relaxed));
    std::fs::create_dir_all(&dir).ok();
    let out = std::process::Command::new(&bin).current_dir(&dir).arg(format!("--fen={}", p.fen())).arg("-T").arg("-d").arg(depth.to_string()).stdin(std::process::Stdio::null()).output().map_err(|e| format!("HARNESS: cannot run {}: {}", bin, e));
    std::fs::remove_dir_all(&dir).ok();
    let out = out?;
    let text = String::from_utf8_lossy(&out.stdout).to_string();
    let got: Option<u64> = text.split(" evaluated ").nth(1).and_then(|r| r.split(' ').next()).and_then(|n| n.parse().ok());
    let want: u64 = (1..=depth).map(|d| p.perft(d)).sum();
    match got {
        Some(g) if g == want => Ok(()),
        Some(g) => Err(format!("`walleye -T -d {} --fen '{}'` generated {} positions over plies 1..{}, the rules give {}", depth, p.fen(), g, depth, want)),
        None => Err(format!("`walleye -T -d {} --fen '{}'` printed no node count: stdout {:?}, stderr {:?}", depth, p.fen(), text.lines().next().unwrap_or(""), String::from_utf8_lossy(&out.stderr).lines().next().unwrap_or(""))),
    }
}

pub fn replay_c01_c02(which: Which, case: &Value) -> CaseResult {
    if let Some(d) = case.get("cli_perft_depth").and_then(|x| x.as_u64()) {
        let fen = case.get("fen").and_then(|x| x.as_str()).ok_or("no fen")?;
        return cli_perft(&Pos::parse_fen(fen).ok_or("bad fen")?, d as u32);
    }
    let (start, moves) = parse_game_case(case)?;
    let mut st = Stats::new();
    let r = walk_check(which, &start, &moves, &mut st);
    r
}

// ---------------------------------------------------------------------------------------------
// C13: capture-only chains

#[derive(Debug, Clone)]
pub struct CapRecipe {
    pub walk: WalkRecipe,
    /// after the walk, play one more move of this class if one is legal (0 none, 1 double step,
    /// 2 promotion-adjacent push, 3 any capture)
    pub finish: u8,
    pub finish_choice: u16,
    /// branch choices for the deep single line below the exhaustive part
    pub deep: Vec<u16>,
}

pub fn cap_strategy() -> impl Strategy<Value = CapRecipe> + Clone {
    (walk_strategy(60), prop_oneof![2 => Just(0u8), 4 => Just(1u8), 1 => Just(3u8)], any::<u16>(), proptest::collection::vec(any::<u16>(), 0..8))
        .prop_map(|(walk, finish, finish_choice, deep)| CapRecipe { walk, finish, finish_choice, deep })
}

pub fn cap_moves(r: &CapRecipe) -> Option<(Pos, Vec<Move>)> {
    let (start, mut moves) = play_walk(&r.walk)?;
    let mut p = start.clone();
    for m in &moves {
        p = p.apply(m);
    }
    if r.finish != 0 {
        let mut ms: Vec<Move> = p
            .legal_moves()
            .into_iter()
            .filter(|m| match r.finish {
                1 => p.classify(m) == MoveClass::DoubleStep,
                _ => p.is_capture(m),
            })
            .collect();
        ms.sort();
        if !ms.is_empty() {
            moves.push(pick_uniform(&ms, r.finish_choice));
        }
    }
    Some((start, moves))
}

struct CapCtx<'a> {
    st: &'a mut Stats,
    nodes: u64,
}

/// capture-only generation at (b,p): move set and successors must agree with the rules; then
/// recurse into every capture while `full_depth > 0`, then along one chosen line for `deep`.
fn cap_tree(b: &BoardState, p: &Pos, ep_in_ancestry: bool, full_depth: u32, deep: &[u16], cx: &mut CapCtx, path: &mut Vec<Move>) -> CaseResult {
    cx.nodes += 1;
    cx.st.eval();
    let succ = c01_node(b, p, true).map_err(|e| format!("{} [capture chain so far: {:?}]", e, names(path)))?;
    c02_node(b, p, &succ, false).map_err(|e| format!("(capture-only successor) {} [capture chain so far: {:?}]", e, names(path)))?;
    let caps: Vec<Move> = {
        let mut c: Vec<Move> = p.legal_moves().into_iter().filter(|m| p.is_capture(m)).collect();
        c.sort();
        c
    };
    let ep_now = ep_in_ancestry || p.ep.is_some();
    let last_rank_cap = caps.iter().any(|m| rank_of(m.to) == 0 || rank_of(m.to) == 7);
    if p.ep.is_some() {
        cx.st.label("node_with_ep_target");
    }
    if ep_in_ancestry && p.ep.is_none() {
        cx.st.label("node_below_an_ep_target");
    }
    if caps.iter().any(|m| m.promo.is_some()) {
        cx.st.label("node_with_capture_promotion");
    }
    if caps.iter().any(|m| p.classify(m) == MoveClass::EnPassant) {
        cx.st.label("node_with_legal_ep_capture");
    }
    if ep_now || last_rank_cap {
        cx.st.nontrivial(fp(&(p, path.len())));
    }
    if caps.is_empty() {
        return Ok(());
    }
    let next = |m: &Move| -> Option<(BoardState, Pos)> { succ.iter().find(|s| desc(s).ok() == Some(*m)).map(|s| (s.clone(), p.apply(m))) };
    if full_depth > 0 {
        for m in &caps {
            if let Some((nb, np)) = next(m) {
                path.push(*m);
                cap_tree(&nb, &np, ep_now, full_depth - 1, deep, cx, path)?;
                path.pop();
            }
        }
    } else if let Some((&c, rest)) = deep.split_first() {
        let m = pick_uniform(&caps, c);
        if let Some((nb, np)) = next(&m) {
            path.push(m);
            cap_tree(&nb, &np, ep_now, 0, rest, cx, path)?;
            path.pop();
        }
    }
    Ok(())
}

pub fn c13_case(start: &Pos, moves: &[Move], deep: &[u16], st: &mut Stats) -> CaseResult {
    c13_case_depth(start, moves, deep, 3, st)
}
pub fn c13_case_depth(start: &Pos, moves: &[Move], deep: &[u16], full_depth: u32, st: &mut Stats) -> CaseResult {
    // reach the chain root by the engine's own full generation, as the search does
    let mut b = board_of(start)?;
    let mut p = start.clone();
    for m in moves {
        let succ = gen_all(&b, hasher());
        match succ.iter().find(|s| desc(s).ok() == Some(*m)) {
            Some(s) => {
                b = s.clone();
                p = p.apply(m);
            }
            None => {
                st.label("move_not_offered_stop");
                return Ok(());
            }
        }
        if to_pos(&b).ok().as_ref() != Some(&p) {
            st.label("chain_diverged_stop");
            return Ok(());
        }
    }
    let mut cx = CapCtx { st, nodes: 0 };
    let mut path = vec![];
    let r = cap_tree(&b, &p, false, full_depth, deep, &mut cx, &mut path);
    r
}

pub fn run_c13(ctx: &mut Ctx) {
    let t = ctx.tier;
    run_prop(
        ctx,
        "capture_chains_below_walks",
        cap_strategy,
        t.pick(60_000, 1_800_000),
        |r, st| {
            let Some((start, moves)) = cap_moves(r) else {
                st.label("recipe_discarded");
                return Ok(());
            };
            st.sample(|| json!({"fen": start.fen(), "moves": names(&moves), "deep": r.deep}));
            c13_case(&start, &moves, &r.deep, st)
        },
        |r| match cap_moves(r) {
            Some((s, m)) => json!({"fen": s.fen(), "moves": names(&m), "deep": r.deep}),
            None => json!({"fen": null}),
        },
    );
    for (name, strat_id, cases) in [("placement_promo", 0, t.pick(60_000, 1_200_000)), ("placement_ep", 1, t.pick(60_000, 1_200_000)), ("placement_general", 2, t.pick(60_000, 1_800_000))] {
        let f = |r: &PlacementRecipe, st: &mut Stats| {
            let Some(p) = build_placement(r) else {
                st.label("recipe_discarded_both_in_check_or_adjacent");
                return Ok(());
            };
            st.sample(|| json!({"fen": p.fen(), "moves": [], "deep": [0, 0, 0]}));
            c13_case(&p, &[], &[0, 0, 0], st)
        };
        let tc = |r: &PlacementRecipe| json!({"fen": build_placement(r).map(|p| p.fen()), "moves": [], "deep": [0, 0, 0]});
        match strat_id {
            0 => run_prop(ctx, &format!("capture_chains_{}", name), placement_promo, cases, f, tc),
            1 => run_prop(ctx, &format!("capture_chains_{}", name), placement_ep, cases, f, tc),
            _ => run_prop(ctx, &format!("capture_chains_{}", name), placement_general, cases, f, tc),
        }
    }
}

pub fn replay_c13(case: &Value) -> CaseResult {
    let (start, moves) = parse_game_case(case)?;
    let deep: Vec<u16> = case.get("deep").and_then(|x| x.as_array()).map(|a| a.iter().filter_map(|v| v.as_u64()).map(|v| v as u16).collect()).unwrap_or_default();
    let mut st = Stats::new();
    c13_case(&start, &moves, &deep, &mut st)
}
