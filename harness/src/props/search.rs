//! Shared machinery for the search properties (virtual clock, captured output) and the checks
//! C07 (expiry safety, fault enumeration over the clock) and C18 (info lines).
use crate::board::BoardState;
use crate::bridge::*;
use crate::draw_table::DrawTable;
use crate::engine::get_best_move;
use crate::gen::*;
use crate::oracle::*;
use crate::props::hash::{play_out, position_command};
use crate::props::movegen::hasher;
use crate::runner::*;
use crate::verif_hooks;
use proptest::prelude::*;
use serde_json::{json, Value};
use std::collections::HashMap;
use std::sync::mpsc;
use std::time::Instant;

pub const MATE_SCORE: i64 = 100_000;
pub const INF_SENTINEL: i64 = 9_999_999;

#[derive(Clone, Debug, PartialEq)]
pub enum Score {
    Cp(i64),
    Mate(i64),
}
impl Score {
    /// one scale for comparisons: cp x -> x, mate n>0 -> 10^6 - n, mate n<0 -> -10^6 - n
    pub fn unified(&self) -> i64 {
        match *self {
            Score::Cp(x) => x,
            Score::Mate(n) if n > 0 => 1_000_000 - n,
            Score::Mate(n) => -1_000_000 - n,
        }
    }
}
#[derive(Clone, Debug)]
pub struct Info {
    pub pv: Vec<String>,
    pub depth: u32,
    pub nodes: u64,
    pub score: Score,
    pub time: u64,
    /// the line without its trailing ` time T`
    pub sans_time: String,
}

fn is_move_token(t: &str) -> bool {
    let b = t.as_bytes();
    b.len() == 4 && (b'a'..=b'h').contains(&b[0]) && (b'1'..=b'8').contains(&b[1]) && (b'a'..=b'h').contains(&b[2]) && (b'1'..=b'8').contains(&b[3])
}
fn plain_uint(t: &str) -> Option<u64> {
    if t.is_empty() || !t.bytes().all(|c| c.is_ascii_digit()) {
        return None;
    }
    t.parse().ok()
}
fn plain_int(t: &str) -> Option<i64> {
    let d = t.strip_prefix('-').unwrap_or(t);
    if d.is_empty() || !d.bytes().all(|c| c.is_ascii_digit()) {
        return None;
    }
    t.parse().ok()
}
/// strict reader of `info pv <moves> depth D nodes N score (cp X | mate Y) time T`
pub fn parse_info(line: &str) -> Result<Info, String> {
    let t: Vec<&str> = line.split(' ').collect();
    let bad = |why: &str| Err(format!("malformed info line ({}): {:?}", why, line));
    if t.len() < 12 || t[0] != "info" || t[1] != "pv" {
        return bad("must start with `info pv` and carry all fields");
    }
    let mut i = 2;
    let mut pv = vec![];
    while i < t.len() && is_move_token(t[i]) {
        pv.push(t[i].to_string());
        i += 1;
    }
    if pv.is_empty() {
        return bad("empty pv");
    }
    if t.len() != i + 9 {
        return bad("wrong number of fields after the pv");
    }
    if t[i] != "depth" || t[i + 2] != "nodes" || t[i + 4] != "score" || t[i + 7] != "time" {
        return bad("field names out of order");
    }
    let Some(depth) = plain_uint(t[i + 1]) else { return bad("depth is not a number") };
    let Some(nodes) = plain_uint(t[i + 3]) else { return bad("nodes is not a number") };
    let Some(val) = plain_int(t[i + 6]) else { return bad("score value is not a number") };
    let score = match t[i + 5] {
        "cp" => Score::Cp(val),
        "mate" => Score::Mate(val),
        _ => return bad("score kind must be cp or mate"),
    };
    let Some(time) = plain_uint(t[i + 8]) else { return bad("time is not a number") };
    let cut = line.rfind(" time ").unwrap();
    Ok(Info { pv, depth: depth as u32, nodes, score, time, sans_time: line[..cut].to_string() })
}

pub struct RunOut {
    pub sends: Vec<BoardState>,
    /// (clock reading at emission, raw line)
    pub lines: Vec<(u64, String)>,
    pub queries: u64,
    pub table_after: HashMap<u64, u8>,
    pub panic: Option<String>,
}

fn table_semantic(t: &DrawTable) -> HashMap<u64, u8> {
    t.table.iter().filter(|(_, v)| **v != 0).map(|(k, v)| (*k, *v)).collect()
}

/// run `get_best_move` on this thread under the virtual clock expiring at consultation `expiry`
pub fn run_search(b: &BoardState, dt: &DrawTable, expiry: u64) -> RunOut {
    let (tx, rx) = mpsc::channel();
    let mut t = dt.clone();
    verif_hooks::arm_clock(expiry);
    verif_hooks::arm_sink();
    let r = catch(|| get_best_move(b, &mut t, Instant::now(), 0, &tx));
    let queries = verif_hooks::disarm_clock();
    let lines = verif_hooks::take_sink();
    drop(tx);
    let sends: Vec<BoardState> = rx.iter().collect();
    RunOut { sends, lines, queries, table_after: table_semantic(&t), panic: r.err() }
}

/// a searchable case: the position and repetition table the UCI loop would hold after
/// `position fen <start> moves <moves>`
pub struct SearchCase {
    pub start: Pos,
    pub moves: Vec<Move>,
    pub root: Pos,
    pub board: BoardState,
    pub table: DrawTable,
}
pub fn make_case(start: &Pos, moves: &[Move]) -> Result<SearchCase, String> {
    let text: Vec<String> = moves.iter().map(mv_name).collect();
    let (board, table) = play_out(&position_command(start, &text, false))?;
    let mut root = start.clone();
    for m in moves {
        root = root.apply(m);
    }
    if to_pos(&board).ok().as_ref() != Some(&root) {
        return Err("position replay diverged from the rules (reported by C04)".into());
    }
    Ok(SearchCase { start: start.clone(), moves: moves.to_vec(), root, board, table })
}
pub fn case_json(start: &Pos, moves: &[Move]) -> Value {
    json!({"fen": start.fen(), "moves": moves.iter().map(mv_name).collect::<Vec<_>>()})
}

/// Game recipe with an optional repetition tail: after the walk, `cycles` out-and-back shuffles
/// (four reversible plies returning to the same position), optionally cut short by `tail_cut` plies
#[derive(Debug, Clone)]
pub struct RepRecipe {
    pub walk: WalkRecipe,
    pub cycles: u8,
    pub c1: u16,
    pub c2: u16,
    pub tail_cut: u8,
}
fn reversible(p: &Pos, m: &Move) -> bool {
    p.classify(m) == MoveClass::Quiet && p.sq[m.from as usize].map(|x| x.1) != Some(Kind::Pawn)
}
/// find a four-ply cycle m1 m2 m1' m2' at `p` that returns to exactly `p`
pub fn find_cycle(p: &Pos, c1: u16, c2: u16) -> Option<[Move; 4]> {
    if p.ep.is_some() {
        return None;
    }
    let mut a: Vec<Move> = p.legal_moves().into_iter().filter(|m| reversible(p, m)).collect();
    a.sort();
    if a.is_empty() {
        return None;
    }
    let start = (c1 as usize * a.len()) >> 16;
    for i in 0..a.len() {
        let m1 = a[(start + i) % a.len()];
        let p1 = p.apply(&m1);
        let mut b: Vec<Move> = p1.legal_moves().into_iter().filter(|m| reversible(&p1, m)).collect();
        b.sort();
        if b.is_empty() {
            continue;
        }
        let s2 = (c2 as usize * b.len()) >> 16;
        for j in 0..b.len() {
            let m2 = b[(s2 + j) % b.len()];
            let p2 = p1.apply(&m2);
            let r1 = Move { from: m1.to, to: m1.from, promo: None };
            if !p2.legal_moves().contains(&r1) {
                continue;
            }
            let p3 = p2.apply(&r1);
            let r2 = Move { from: m2.to, to: m2.from, promo: None };
            if !p3.legal_moves().contains(&r2) {
                continue;
            }
            if p3.apply(&r2) == *p {
                return Some([m1, m2, r1, r2]);
            }
        }
    }
    None
}
pub fn rep_moves(r: &RepRecipe) -> Option<(Pos, Vec<Move>)> {
    if let Some(g) = crate::props::blackbox::REPLAY_GAME.with(|x| x.borrow().clone()) {
        return Some(g);
    }
    let (start, mut moves) = play_walk(&r.walk)?;
    let mut p = start.clone();
    for m in &moves {
        p = p.apply(m);
    }
    if r.cycles > 0 {
        if let Some(cyc) = find_cycle(&p, r.c1, r.c2) {
            for _ in 0..r.cycles {
                moves.extend(cyc);
            }
            let cut = (r.tail_cut % 4) as usize;
            moves.truncate(moves.len() - cut);
        }
    }
    Some((start, moves))
}
pub fn rep_strategy(max_walk: usize, endgame_bias: bool) -> impl Strategy<Value = RepRecipe> {
    // near-mate placements (few men, so quiescence stays small) bring mate scores, forced lines and
    // stalemate traps into the mix
    let near_mate = (prop_oneof![2 => placement_near_mate(), 1 => placement_heavy_net()].prop_map(Start::Placement), proptest::collection::vec(any::<u16>(), 0..3)).prop_map(|(start, choices)| WalkRecipe { start, choices });
    let walk = if endgame_bias { prop_oneof![4 => endgame_walk_strategy(max_walk), 2 => gamelike_walk_strategy(max_walk), 3 => near_mate].boxed() } else { prop_oneof![4 => gamelike_walk_strategy(max_walk), 1 => near_mate].boxed() };
    (walk, prop_oneof![5 => Just(0u8), 3 => 1u8..3, 2 => 2u8..6], any::<u16>(), any::<u16>(), 0u8..4).prop_map(|(walk, cycles, c1, c2, tail_cut)| RepRecipe { walk, cycles, c1, c2, tail_cut })
}
pub fn rep_json(r: &RepRecipe) -> Value {
    match rep_moves(r) {
        Some((s, m)) => case_json(&s, &m),
        None => json!({"fen": null}),
    }
}

// ---------------------------------------------------------------------------------------------
// C18 line checks (used by C07's runs and by the black-box sessions)

/// checks on one search's sequence of info lines; `root` is the searched position
pub fn c18_lines(root: &Pos, lines: &[String], st: &mut Stats) -> Result<Vec<Info>, String> {
    let legal = root.legal_moves();
    let mut out: Vec<Info> = vec![];
    for l in lines {
        let inf = parse_info(l)?;
        if inf.depth < 1 {
            return Err(format!("info line with depth {} at '{}': {:?}", inf.depth, root.fen(), l));
        }
        match inf.score {
            Score::Mate(0) => return Err(format!("`score mate 0` at '{}': {:?}", root.fen(), l)),
            Score::Mate(n) if n.abs() > 100 => return Err(format!("mate distance {} beyond any search depth at '{}' (an aborted search's sentinel?): {:?}", n, root.fen(), l)),
            Score::Cp(x) if x.abs() >= INF_SENTINEL => return Err(format!("the infinity sentinel is reported as a score at '{}': {:?}", root.fen(), l)),
            Score::Cp(x) if x.abs() > MATE_SCORE => return Err(format!("cp score {} exceeds the mate magnitude at '{}': {:?}", x, root.fen(), l)),
            _ => {}
        }
        let first = &inf.pv[0];
        let fm = parse_mv(first).unwrap();
        if !legal.iter().any(|m| m.from == fm.from && m.to == fm.to) {
            return Err(format!("first pv move {} is not legal at '{}': {:?}", first, root.fen(), l));
        }
        if let Some(prev) = out.last() {
            if inf.depth < prev.depth {
                return Err(format!("depth decreases from {} to {} at '{}': {:?}", prev.depth, inf.depth, root.fen(), l));
            }
            if inf.depth == prev.depth && inf.score.unified() <= prev.score.unified() {
                return Err(format!("within depth {} the score does not strictly increase ({:?} after {:?}) at '{}': {:?}", inf.depth, inf.score, prev.score, root.fen(), l));
            }
        }
        if matches!(inf.score, Score::Mate(_)) {
            st.label("line_with_mate_score");
        }
        out.push(inf);
    }
    Ok(out)
}
pub fn c18_nontrivial(infos: &[Info]) -> bool {
    infos.windows(2).any(|w| w[0].depth == w[1].depth) || infos.iter().any(|i| matches!(i.score, Score::Mate(_)))
}

// ---------------------------------------------------------------------------------------------
// C07

#[derive(Copy, Clone, PartialEq)]
pub enum Mode {
    C07,
    C18,
}

/// what one run must satisfy on its own (no panic, table restored, something sent, sent boards
/// are legal root successors, lines well formed) - returns the parsed lines
fn run_invariants(case: &SearchCase, run: &RunOut, k: u64, mode: Mode, st: &mut Stats) -> Result<Vec<Info>, String> {
    let at = || format!("'{}' after {:?}, clock expiring at consultation {}", case.start.fen(), case.moves.iter().map(mv_name).collect::<Vec<_>>(), k);
    if mode == Mode::C07 {
        if let Some(p) = &run.panic {
            return Err(format!("search panicked at {}: {}", at(), p));
        }
        let before = table_semantic(&case.table);
        if run.table_after != before {
            let changed: Vec<String> = run.table_after.iter().filter(|(k, v)| before.get(k) != Some(v)).map(|(k, v)| format!("{:016x}:{}", k, v)).chain(before.iter().filter(|(k, _)| !run.table_after.contains_key(k)).map(|(k, v)| format!("{:016x}:{}->0", k, v))).take(4).collect();
            return Err(format!("repetition record not restored at {}: {} entries differ, e.g. {:?}", at(), changed.len(), changed));
        }
        if run.sends.is_empty() {
            return Err(format!("search handed back no move at {}", at()));
        }
        let legal = case.root.legal_moves();
        for s in &run.sends {
            let d = desc(s).map_err(|e| format!("{} at {}", e, at()))?;
            if !legal.contains(&d) {
                return Err(format!("search handed back {} which is not a legal move of the root at {}", mv_name(&d), at()));
            }
            let diffs = diff_board(s, &case.root.apply(&d));
            if !diffs.is_empty() {
                return Err(format!("the board handed back for {} is not the position after that move at {}: {}", mv_name(&d), at(), diffs.join("; ")));
            }
        }
        if run.lines.is_empty() {
            // documented fallback: nothing completed, first move of the ordering
            if run.sends.len() != 1 {
                return Err(format!("no evaluation completed but {} boards were sent at {}", run.sends.len(), at()));
            }
            let best = gen_all(&case.board, hasher()).iter().map(|m| m.order_heuristic).max().unwrap_or(0);
            if run.sends[0].order_heuristic != best {
                return Err(format!("fallback move {} is not first in the move ordering at {}", desc_text(&run.sends[0]), at()));
            }
            st.label("fallback_run");
        } else if run.sends.len() != run.lines.len() {
            return Err(format!("{} boards sent but {} improvements reported at {}", run.sends.len(), run.lines.len(), at()));
        }
    }
    if run.panic.is_some() {
        return Ok(vec![]);
    }
    let raw: Vec<String> = run.lines.iter().map(|x| x.1.clone()).collect();
    match mode {
        Mode::C18 => c18_lines(&case.root, &raw, st).map_err(|e| format!("{} [{}]", e, at())),
        Mode::C07 => {
            // C07 only needs scores free of the abort sentinel; formatting is C18's subject
            let mut v = vec![];
            for l in &raw {
                if let Ok(i) = parse_info(l) {
                    if let Score::Cp(x) = i.score {
                        if x.abs() >= INF_SENTINEL || x.abs() > MATE_SCORE {
                            return Err(format!("a value of an aborted sub-search reached a reported score at {}: {:?}", at(), l));
                        }
                    }
                    if let Score::Mate(n) = i.score {
                        if n.abs() > 100 {
                            return Err(format!("a value of an aborted sub-search reached a reported score at {}: {:?}", at(), l));
                        }
                    }
                    v.push(i);
                }
            }
            Ok(v)
        }
    }
}

/// C07/C18 on one case: reference run with expiry K, then every expiry 0..=K and sampled deeper
/// ones; prefix law against the reference, monotone in k.
pub fn expiry_case(case: &SearchCase, kmax: u64, deep: &[u64], mode: Mode, st: &mut Stats) -> CaseResult {
    let horizon = deep.iter().cloned().max().unwrap_or(0).max(kmax);
    let reference = run_search(&case.board, &case.table, horizon);
    st.eval();
    let ref_infos = run_invariants(case, &reference, horizon, mode, st)?;
    let ref_sans: Vec<String> = reference.lines.iter().map(|(_, l)| parse_info(l).map(|i| i.sans_time).unwrap_or_else(|_| l.clone())).collect();
    let ref_moves: Vec<String> = reference.sends.iter().map(desc_text).collect();
    let first_d2 = ref_infos.iter().zip(reference.lines.iter()).find(|(i, _)| i.depth >= 2).map(|(_, l)| l.0);
    if mode == Mode::C18 && c18_nontrivial(&ref_infos) {
        st.nontrivial(fp(&(&case.start, &case.moves)));
    }
    let mut prev_len = 0usize;
    // Work bound, deterministic: the clock is only consulted at alpha-beta nodes, so positions whose
    // quiescence trees are large cost many evaluated nodes per consultation. The number of enumerated
    // expiry points is scaled down by the measured nodes-per-consultation ratio of the reference run.
    let mut per_depth: HashMap<u32, u64> = HashMap::new();
    for i in &ref_infos {
        let e = per_depth.entry(i.depth).or_insert(0);
        *e = (*e).max(i.nodes);
    }
    let nodes_total: u64 = per_depth.values().sum();
    let q_last = reference.lines.last().map(|l| l.0).unwrap_or(1).max(1);
    let ratio = (nodes_total as f64 / q_last as f64).max(1.0);
    let kmax = if ratio > 3.0 { ((kmax as f64) * (3.0 / ratio).sqrt()) as u64 } else { kmax }.max(200);
    if ratio > 3.0 {
        st.label("expiry_bound_scaled_down_for_heavy_quiescence");
    }
    // C18 examines the lines of EVERY expiry point too (a malformed line can belong to a single k,
    // e.g. the one consultation on entry of a null-move probe)
    let stride_from = u64::MAX;
    let ks: Vec<u64> = (0..=kmax.min(reference.queries)).filter(|&k| k <= stride_from || k % 5 == 0).chain(deep.iter().cloned().filter(|&k| k > kmax && k < reference.queries)).collect();
    let mut sorted = ks.clone();
    sorted.sort();
    for k in sorted {
        let run = run_search(&case.board, &case.table, k);
        st.eval();
        let _ = run_invariants(case, &run, k, mode, st)?;
        if mode == Mode::C07 {
            let at = || format!("'{}' after {:?}, clock expiring at consultation {}", case.start.fen(), case.moves.iter().map(mv_name).collect::<Vec<_>>(), k);
            let n = run.lines.len();
            let sans: Vec<String> = run.lines.iter().map(|(_, l)| parse_info(l).map(|i| i.sans_time).unwrap_or_else(|_| l.clone())).collect();
            if n > ref_sans.len() || sans[..] != ref_sans[..n] {
                let i = (0..n).find(|&i| i >= ref_sans.len() || sans[i] != ref_sans[i]).unwrap_or(0);
                return Err(format!(
                    "improvements reported under the smaller allowance are not a prefix of those under the larger one at {}: line #{} is {:?} but the search with allowance {} reports {:?}",
                    at(),
                    i,
                    sans.get(i),
                    horizon,
                    ref_sans.get(i)
                ));
            }
            if n > 0 {
                let mv: Vec<String> = run.sends.iter().map(desc_text).collect();
                if mv[..] != ref_moves[..n] {
                    return Err(format!("moves handed back under the smaller allowance {:?} are not a prefix of those under the larger one {:?} at {}", mv, &ref_moves[..n.min(ref_moves.len())], at()));
                }
            }
            if n < prev_len {
                return Err(format!("a larger allowance reports fewer improvements ({} after {}) at {}", n, prev_len, at()));
            }
            prev_len = n;
            // non-trivial: the expiry lands strictly inside a sub-search
            if k > 0 && k + 1 < reference.queries {
                st.nontrivial(fp(&(&case.start, &case.moves, k)));
                if first_d2.map(|q| k > q).unwrap_or(false) {
                    st.label("expiry_in_iteration_2_or_later");
                }
            }
        }
    }
    st.label_n("expiry_points", ks.len() as u64);
    let maxd = ref_infos.iter().map(|i| i.depth).max().unwrap_or(0);
    st.label(&format!("reference_reached_depth_{}", maxd.min(9)));
    if !case.table.table.values().all(|&v| v <= 1) {
        st.label("case_with_repetition_history");
    }
    Ok(())
}

#[derive(Debug, Clone)]
pub struct ExpiryRecipe {
    pub game: RepRecipe,
    pub deep: Vec<u32>,
}
fn expiry_strategy(deep_n: usize, deep_max: u32) -> impl Strategy<Value = ExpiryRecipe> {
    (rep_strategy(50, true), proptest::collection::vec(0u32..deep_max, deep_n..=deep_n)).prop_map(|(game, deep)| ExpiryRecipe { game, deep })
}

pub fn run_expiry(ctx: &mut Ctx, mode: Mode) {
    let t = ctx.tier;
    let kmax: u64 = t.pick(1500, 5000);
    let deep_n = t.pick(4usize, 40usize);
    let deep_max = t.pick(20_000u32, 60_000u32);
    let cases = if mode == Mode::C18 { t.pick(160, 512) } else { t.pick(256, 768) };
    // twice as many runners as cores: the cost per case is heavy-tailed
    let saved_workers = ctx.workers;
    ctx.workers = saved_workers * 2;
    run_prop(
        ctx,
        if mode == Mode::C07 { "every_expiry_point_of_generated_positions" } else { "info_lines_at_every_expiry_point" },
        move || expiry_strategy(deep_n, deep_max),
        cases,
        move |r, st| {
            let Some((start, moves)) = rep_moves(&r.game) else { return Ok(()) };
            let Ok(case) = make_case(&start, &moves) else {
                st.label("replay_diverged_skip");
                return Ok(());
            };
            if case.root.legal_moves().is_empty() {
                st.label("terminal_root_skipped");
                return Ok(());
            }
            st.sample(|| case_json(&start, &moves));
            let deep: Vec<u64> = r.deep.iter().map(|&d| d as u64).collect();
            expiry_case(&case, kmax, &deep, mode, st)
        },
        move |r| {
            let mut v = rep_json(&r.game);
            v["kmax"] = json!(kmax);
            v["deep"] = json!(r.deep);
            v
        },
    );
    ctx.workers = saved_workers;
    // forced replies: positions with exactly one legal move (the root loop has a single element, so
    // the fallback / first-acceptance logic is all there is), every expiry point up to 300
    run_prop(
        ctx,
        if mode == Mode::C07 { "single_legal_move_positions_every_expiry" } else { "info_lines_single_legal_move_positions" },
        || prop_oneof![placement_checks(), placement_near_mate()],
        t.pick(12_000, 120_000),
        move |r, st| {
            let Some(p) = build_placement(r) else { return Ok(()) };
            if p.legal_moves().len() != 1 || p.count() > 12 {
                st.label("recipe_discarded_not_a_forced_reply");
                return Ok(());
            }
            let Ok(case) = make_case(&p, &[]) else { return Ok(()) };
            st.label("root_with_single_legal_move");
            st.sample(|| case_json(&p, &[]));
            expiry_case(&case, 300, &[], mode, st)
        },
        |r| {
            let mut v = match build_placement(r) {
                Some(p) => case_json(&p, &[]),
                None => json!({"fen": null}),
            };
            v["kmax"] = json!(300);
            v["deep"] = json!([]);
            v
        },
    );
    if mode == Mode::C18 {
        // Very long principal variations: blocked pawn chains with only the kings to move are searched
        // to depth 14 and beyond within a second, and the printed pv (lengthened further by the
        // null-move ply offset) grows past 25 moves. One far horizon per position, lines judged.
        let horizon = t.pick(3_000_000u64, 8_000_000u64);
        run_prop(
            ctx,
            "long_principal_variations_in_blocked_positions",
            || (proptest::collection::vec((0u8..8, 1u8..5), 3..7), 0u8..64, 0u8..64, any::<bool>()),
            t.pick(96, 800),
            move |(pairs, wk, bk, wtm), st| {
                let mut p = Pos::empty();
                for &(f, r) in pairs {
                    let (a, b) = (mk(f as i8, r as i8).unwrap(), mk(f as i8, r as i8 + 1).unwrap());
                    if p.sq[a as usize].is_none() && p.sq[b as usize].is_none() {
                        p.sq[a as usize] = Some((Color::White, Kind::Pawn));
                        p.sq[b as usize] = Some((Color::Black, Kind::Pawn));
                    }
                }
                if p.sq[*wk as usize].is_some() || p.sq[*bk as usize].is_some() || wk == bk {
                    return Ok(());
                }
                p.sq[*wk as usize] = Some((Color::White, Kind::King));
                p.sq[*bk as usize] = Some((Color::Black, Kind::King));
                p.stm = if *wtm { Color::White } else { Color::Black };
                if !p.is_legal_position() || p.legal_moves().is_empty() {
                    return Ok(());
                }
                // keep it a pure shuffling position: no pawn may be capturable at once
                if p.legal_moves().iter().any(|m| p.is_capture(m)) {
                    return Ok(());
                }
                let Ok(case) = make_case(&p, &[]) else { return Ok(()) };
                st.eval();
                st.sample(|| case_json(&p, &[]));
                let run = run_search(&case.board, &case.table, horizon);
                if run.panic.is_some() {
                    return Ok(()); // C07's subject
                }
                let raw: Vec<String> = run.lines.iter().map(|x| x.1.clone()).collect();
                let infos = c18_lines(&case.root, &raw, st).map_err(|e| format!("{} ['{}', clock expiring at consultation {}]", e, p.fen(), horizon))?;
                let longest = infos.iter().map(|i| i.pv.len()).max().unwrap_or(0);
                st.label(&format!("longest_pv_{}", if longest >= 26 { "26_or_more" } else if longest >= 16 { "16_to_25" } else { "up_to_15" }));
                if longest >= 26 {
                    st.nontrivial(fp(&p));
                }
                Ok(())
            },
            move |(pairs, wk, bk, wtm)| json!({"long_pv": true, "pairs": pairs, "wk": wk, "bk": bk, "wtm": wtm, "horizon": horizon}),
        );
    }
    if mode == Mode::C07 {
        // Small trees searched very deep: endgames in which the side to move can repeat a position
        // (every other line is cut at once), so that within a few thousand consultations the
        // iterative deepening passes depth 40-99 and lines run to ply 100 and beyond (check
        // extensions, null-move ply offset). Few expiry points, far horizon.
        let horizon = t.pick(40_000u64, 150_000u64);
        run_prop(
            ctx,
            "deep_iterations_on_repetition_endgames",
            || {
                (proptest::sample::select(vec![23usize, 24, 27, 30, 31, 32, 37, 33, 22, 25]).prop_map(Start::Corpus), proptest::collection::vec(any::<u16>(), 0..14), 2u8..5, any::<u16>(), any::<u16>(), 0u8..4, proptest::collection::vec(0u32..40_000, 3..=3))
                    .prop_map(|(start, choices, cycles, c1, c2, tail_cut, deep)| ExpiryRecipe { game: RepRecipe { walk: WalkRecipe { start, choices }, cycles, c1, c2, tail_cut }, deep })
            },
            t.pick(400, 3_000),
            move |r, st| {
                let Some((start, moves)) = rep_moves(&r.game) else { return Ok(()) };
                let Ok(case) = make_case(&start, &moves) else { return Ok(()) };
                if case.root.legal_moves().is_empty() {
                    return Ok(());
                }
                st.sample(|| case_json(&start, &moves));
                let mut deep: Vec<u64> = r.deep.iter().map(|&d| d as u64).collect();
                deep.push(horizon);
                expiry_case(&case, 60, &deep, mode, st)
            },
            move |r| {
                let mut v = rep_json(&r.game);
                v["kmax"] = json!(60);
                let mut deep: Vec<u64> = r.deep.iter().map(|&d| d as u64).collect();
                deep.push(horizon);
                v["deep"] = json!(deep);
                v
            },
        );
    }
    {
        // Roots with 120 to 218 legal moves (queen fans) and other extreme but legal material: every
        // per-root-move list, counter or array in the search is at its limit here.
        run_prop(
            ctx,
            if mode == Mode::C07 { "roots_with_very_many_legal_moves" } else { "info_lines_at_roots_with_very_many_legal_moves" },
            || (prop_oneof![3 => placement_fan(), 1 => placement_crowd()], proptest::collection::vec(500u32..6_000, 2..=2)),
            t.pick(40, 600),
            move |(r, deep), st| {
                let Some(p) = build_placement(r) else { return Ok(()) };
                let n = p.legal_moves().len();
                if n < 60 {
                    return Ok(());
                }
                let Ok(case) = make_case(&p, &[]) else { return Ok(()) };
                st.sample(|| case_json(&p, &[]));
                st.label(if n > 128 { "root_with_more_than_128_legal_moves" } else { "root_with_60_to_128_legal_moves" });
                let deep: Vec<u64> = deep.iter().map(|&d| d as u64).collect();
                expiry_case(&case, 250, &deep, mode, st)
            },
            move |(r, deep)| {
                let mut v = match build_placement(r) {
                    Some(p) => case_json(&p, &[]),
                    None => json!({"fen": null}),
                };
                v["kmax"] = json!(250);
                v["deep"] = json!(deep);
                v
            },
        );
    }
    if mode == Mode::C07 {
        // Long searches: middlegame positions with a game history, searched for millions of clock
        // consultations (iteration 7-9, a repetition table grown to hundreds of thousands of entries
        // during the search). Bookkeeping that only starts at some size or depth (table compaction,
        // rehashing, a counter wrapping) shows here; the record must still come back as given.
        let horizon = t.pick(3_000_000u64, 12_000_000u64);
        let saved = ctx.workers;
        run_prop(
            ctx,
            "record_handed_back_after_long_searches",
            || (gamelike_walk_strategy(40), proptest::collection::vec(1u32..2_000_000, 2..=2)).prop_map(|(walk, deep)| ExpiryRecipe { game: RepRecipe { walk, cycles: 0, c1: 0, c2: 0, tail_cut: 0 }, deep }),
            t.pick(16, 96),
            move |r, st| {
                let Some((start, moves)) = rep_moves(&r.game) else { return Ok(()) };
                let Ok(case) = make_case(&start, &moves) else { return Ok(()) };
                if case.root.legal_moves().is_empty() {
                    return Ok(());
                }
                st.sample(|| case_json(&start, &moves));
                let mut deep: Vec<u64> = r.deep.iter().map(|&d| d as u64).collect();
                deep.push(horizon);
                if !moves.is_empty() {
                    st.label("long_search_with_game_history");
                }
                expiry_case(&case, 20, &deep, mode, st)
            },
            move |r| {
                let mut v = rep_json(&r.game);
                v["kmax"] = json!(20);
                let mut deep: Vec<u64> = r.deep.iter().map(|&d| d as u64).collect();
                deep.push(horizon);
                v["deep"] = json!(deep);
                v
            },
        );
        ctx.workers = saved;
    }
}

pub fn replay_expiry(case: &Value, mode: Mode) -> CaseResult {
    if case.get("long_pv").is_some() {
        let mut p = Pos::empty();
        for pr in case.get("pairs").and_then(|x| x.as_array()).cloned().unwrap_or_default() {
            let f = pr.get(0).and_then(|x| x.as_u64()).unwrap_or(0) as i8;
            let r = pr.get(1).and_then(|x| x.as_u64()).unwrap_or(1) as i8;
            let (a, b) = (mk(f, r).ok_or("bad pair")?, mk(f, r + 1).ok_or("bad pair")?);
            if p.sq[a as usize].is_none() && p.sq[b as usize].is_none() {
                p.sq[a as usize] = Some((Color::White, Kind::Pawn));
                p.sq[b as usize] = Some((Color::Black, Kind::Pawn));
            }
        }
        let wk = case.get("wk").and_then(|x| x.as_u64()).unwrap_or(0) as usize;
        let bk = case.get("bk").and_then(|x| x.as_u64()).unwrap_or(63) as usize;
        p.sq[wk] = Some((Color::White, Kind::King));
        p.sq[bk] = Some((Color::Black, Kind::King));
        p.stm = if case.get("wtm").and_then(|x| x.as_bool()).unwrap_or(true) { Color::White } else { Color::Black };
        let horizon = case.get("horizon").and_then(|x| x.as_u64()).unwrap_or(1_500_000);
        let c = make_case(&p, &[])?;
        let run = run_search(&c.board, &c.table, horizon);
        let raw: Vec<String> = run.lines.iter().map(|x| x.1.clone()).collect();
        return c18_lines(&c.root, &raw, &mut Stats::new()).map(|_| ());
    }
    let (start, moves) = parse_game_case(case)?;
    let kmax = case.get("kmax").and_then(|x| x.as_u64()).unwrap_or(1500);
    let deep: Vec<u64> = case.get("deep").and_then(|x| x.as_array()).map(|a| a.iter().filter_map(|v| v.as_u64()).collect()).unwrap_or_default();
    let c = make_case(&start, &moves)?;
    if c.root.legal_moves().is_empty() {
        return Ok(());
    }
    expiry_case(&c, kmax, &deep, mode, &mut Stats::new())
}
