//! Search semantics under the virtual clock: C10 (repetition), C11 (mates), C12 (exact minimax
//! value at shallow depth, reference model).
use crate::board::BoardState;
use crate::bridge::*;
use crate::evaluation::get_evaluation;
use crate::gen::*;
use crate::move_generation::is_check;
use crate::oracle::*;
use crate::props::hash::{play_out, position_command};
use crate::props::movegen::hasher;
use crate::props::search::*;
use crate::runner::*;
use crate::uci::verif_make_move;
use proptest::prelude::*;
use serde_json::{json, Value};
use std::collections::HashMap;

const MATE: i32 = 100_000;
const INF: i32 = 9_999_999;

/// the engine's own score formatting, replicated on the reference value
pub fn format_score(eval: i32) -> Score {
    let mate_window = 15;
    if eval >= MATE - mate_window {
        Score::Mate(((MATE - eval + 1) / 2) as i64)
    } else if eval <= -MATE + mate_window {
        Score::Mate(((MATE + eval) / -2) as i64)
    } else {
        Score::Cp(eval as i64)
    }
}

/// Reference model: plain fail-soft alpha-beta (no PVS, no killers, no null move, no ordering
/// dependence) over the engine's own generate_moves / get_evaluation / is_check with exactly the
/// engine's leaf rules in its order.
pub struct Reference {
    pub table: HashMap<u64, u8>,
    pub nodes: u64,
    pub hit_repetition: bool,
    pub hit_mate: bool,
    pub hit_stalemate: bool,
    pub hit_check_extension: bool,
    pub pruning: bool,
}
impl Reference {
    pub fn new(case: &SearchCase, pruning: bool) -> Reference {
        Reference { table: case.table.table.iter().map(|(k, v)| (*k, *v)).collect(), nodes: 0, hit_repetition: false, hit_mate: false, hit_stalemate: false, hit_check_extension: false, pruning }
    }
    fn quiesce(&mut self, b: &BoardState, mut alpha: i32, beta: i32) -> i32 {
        self.nodes += 1;
        let stand = get_evaluation(b);
        let mut best = stand;
        if self.pruning {
            if best >= beta {
                return best;
            }
            alpha = alpha.max(best);
        }
        let mut caps = gen_caps(b, hasher());
        // ordering only affects the amount of pruning, never the value
        caps.sort_by_key(|k| std::cmp::Reverse(k.order_heuristic));
        for m in caps {
            let v = -self.quiesce(&m, -beta, -alpha);
            if v > best {
                best = v;
                if self.pruning {
                    if best >= beta {
                        return best;
                    }
                    alpha = alpha.max(best);
                }
            }
        }
        best
    }
    /// value of `b` (side to move's view) with `depth` plies left, `ply` from the root
    pub fn value(&mut self, b: &BoardState, mut depth: u32, ply: i32, mut alpha: i32, beta: i32) -> i32 {
        self.nodes += 1;
        let cnt = *self.table.get(&b.zobrist_key).unwrap_or(&0);
        if cnt >= 2 {
            self.hit_repetition = true;
            return 0;
        }
        if depth == 0 {
            if is_check(b, b.to_move) {
                self.hit_check_extension = true;
                depth = 1;
            } else {
                return self.quiesce(b, alpha, beta);
            }
        }
        let mut moves = gen_all(b, hasher());
        moves.sort_by_key(|k| std::cmp::Reverse(k.order_heuristic));
        if moves.is_empty() {
            return if is_check(b, b.to_move) {
                self.hit_mate = true;
                -(MATE - ply)
            } else {
                self.hit_stalemate = true;
                0
            };
        }
        *self.table.entry(b.zobrist_key).or_insert(0) += 1;
        let mut best = -INF;
        for m in &moves {
            let v = -self.value(m, depth - 1, ply + 1, -beta, -alpha);
            if v > best {
                best = v;
                if self.pruning {
                    if best >= beta {
                        break;
                    }
                    alpha = alpha.max(best);
                }
            }
        }
        *self.table.get_mut(&b.zobrist_key).unwrap() -= 1;
        best
    }
    /// value of the root position at iteration depth d, and of each root move
    pub fn root(&mut self, case: &SearchCase, d: u32) -> (i32, Vec<(Move, i32)>) {
        let mut out = vec![];
        let mut best = -INF;
        for m in gen_all(&case.board, hasher()) {
            // root moves are searched with an open window so that every root move's value is exact
            let v = -self.value(&m, d - 1, 1, -INF, INF);
            best = best.max(v);
            if let Ok(dm) = desc(&m) {
                out.push((dm, v));
            }
        }
        (best, out)
    }
}

/// run the engine until the first line of depth `want+1` appears (depths 1..=want completed);
/// returns (last line of each depth 1..=want, last sent move of each depth)
pub fn completed_depths(case: &SearchCase, want: u32, max_budget: u64) -> Result<Option<(Vec<Info>, Vec<Move>, RunOut)>, String> {
    let mut budget = 2_000u64;
    loop {
        let run = run_search(&case.board, &case.table, budget);
        if run.panic.is_some() {
            // a panicking search is C07's subject; here it only means this case cannot be judged
            return Ok(None);
        }
        let mut infos = vec![];
        for (_, l) in &run.lines {
            infos.push(parse_info(l)?);
        }
        let finished = infos.iter().any(|i| i.depth > want) || run.queries < budget;
        if finished {
            let mut lasts = vec![];
            let mut moves = vec![];
            for d in 1..=want {
                match infos.iter().rposition(|i| i.depth == d) {
                    Some(ix) => {
                        lasts.push(infos[ix].clone());
                        moves.push(desc(&run.sends[ix])?);
                    }
                    None => return Ok(None),
                }
            }
            return Ok(Some((lasts, moves, run)));
        }
        if budget >= max_budget {
            return Ok(None);
        }
        budget *= 4;
    }
}

// ---------------------------------------------------------------------------------------------
// C12

pub fn c12_case(case: &SearchCase, st: &mut Stats) -> CaseResult {
    st.eval();
    let Some((lasts, moves, _)) = completed_depths(case, 3, 600_000)? else {
        st.unjudged += 1;
        st.label("depth_3_not_completed_within_budget");
        return Ok(());
    };
    let at = || format!("'{}' after {:?}", case.start.fen(), case.moves.iter().map(mv_name).collect::<Vec<_>>());
    let mut nontrivial = false;
    for d in 1..=3u32 {
        let mut rf = Reference::new(case, true);
        let (v, per_move) = rf.root(case, d);
        let want = format_score(v);
        let got = &lasts[d as usize - 1].score;
        if *got != want {
            return Err(format!("depth {}: the engine reports {:?} but the exact minimax value of its own evaluation is {:?} ({}) at {}; engine line: {:?}", d, got, want, v, at(), lasts[d as usize - 1].sans_time));
        }
        let chosen = moves[d as usize - 1];
        match per_move.iter().find(|(m, _)| *m == chosen) {
            Some((_, mv)) => {
                if format_score(*mv) != want {
                    return Err(format!("depth {}: the engine selects {} whose exact value is {:?} but the position's value is {:?} at {}", d, mv_name(&chosen), format_score(*mv), want, at()));
                }
            }
            None => return Err(format!("depth {}: the engine selects {} which is not among the generated root moves at {}", d, mv_name(&chosen), at())),
        }
        if rf.hit_repetition {
            st.label("repetition_leaf_reached");
            nontrivial = true;
        }
        if rf.hit_mate {
            st.label("mate_leaf_reached");
            nontrivial = true;
        }
        if rf.hit_stalemate {
            st.label("stalemate_leaf_reached");
            nontrivial = true;
        }
        if rf.hit_check_extension {
            st.label("check_extension_used");
        }
        // search mattered: the value is not the static evaluation after the first-ordered move
        let first = gen_all(&case.board, hasher()).into_iter().max_by_key(|m| m.order_heuristic).map(|m| -get_evaluation(&m));
        if first != Some(v) {
            nontrivial = true;
        }
    }
    if nontrivial {
        st.nontrivial(fp(&(&case.start, &case.moves)));
    }
    Ok(())
}

/// the pruned reference agrees with unpruned minimax on small positions (validated every run)
pub fn reference_self_check(ctx: &mut Ctx) {
    let fens = [
        "8/8/8/4k3/8/8/4P3/4K3 w - - 0 1",
        "8/5k2/8/8/8/8/1Q6/4K3 w - - 0 1",
        "8/8/4k3/8/8/2B5/3N4/4K3 w - - 0 1",
        "8/8/8/8/1k6/8/1p6/1K6 b - - 0 1",
        "8/P4k2/8/8/8/8/5K1p/8 w - - 0 1",
        "k7/2Q5/1K6/8/8/8/8/8 b - - 0 1",
        "8/8/1r6/8/4k3/8/2K3R1/8 w - - 0 1",
        "8/3n4/8/2k5/8/2K5/3N4/8 b - - 0 1",
        "7k/5Q2/6K1/8/8/8/8/8 w - - 0 1",
        "8/8/8/8/8/5k2/6q1/7K w - - 0 1",
        "6k1/5ppp/8/8/8/8/8/R5K1 w - - 0 1",
        "8/8/8/3k4/8/8/8/R3K3 w Q - 0 1",
    ];
    let mut st = Stats::new();
    for f in fens {
        let p = Pos::parse_fen(f).unwrap();
        // each position and every position one ply below it
        let mut all = vec![(p.clone(), vec![])];
        for m in p.legal_moves() {
            all.push((p.clone(), vec![m]));
        }
        for (s, ms) in all {
            let Ok(case) = make_case(&s, &ms) else { continue };
            if case.root.legal_moves().is_empty() {
                continue;
            }
            for d in 1..=3 {
                let a = Reference::new(&case, true).root(&case, d).0;
                let b = Reference::new(&case, false).root(&case, d).0;
                st.eval();
                if a != b {
                    ctx.inconclusive.push(format!("reference self-check failed at {} depth {}: pruned {} unpruned {}", case.root.fen(), d, a, b));
                    eprintln!("HARNESS ERROR: alpha-beta reference disagrees with unpruned minimax at {} depth {}", case.root.fen(), d);
                    std::process::exit(2);
                }
            }
        }
    }
    ctx.family_done("reference_vs_unpruned_minimax_selfcheck", st, json!({"driver": "enumeration", "note": "validates the trusted reference model, not the engine"}));
}

pub fn run_c12(ctx: &mut Ctx) {
    reference_self_check(ctx);
    let t = ctx.tier;
    ctx.max_shrink_iters = 200;
    run_prop(
        ctx,
        "shallow_search_vs_reference_minimax",
        || rep_strategy(60, false),
        t.pick(6_400, 160_000),
        |r, st| {
            let Some((start, moves)) = rep_moves(r) else { return Ok(()) };
            let Ok(case) = make_case(&start, &moves) else {
                st.label("replay_diverged_skip");
                return Ok(());
            };
            if case.root.legal_moves().is_empty() {
                st.label("terminal_root_skipped");
                return Ok(());
            }
            if !case.table.table.values().all(|&v| v <= 1) {
                st.label("case_with_repetition_history");
            }
            if case.table.table.values().any(|&v| v >= 3) {
                st.label("case_with_count_3_or_more");
            }
            st.sample(|| case_json(&start, &moves));
            c12_case(&case, st)
        },
        rep_json,
    );
    run_c12_tactical(ctx);
    run_prop(
        ctx,
        "forced_return_to_a_twice_seen_position",
        || any::<u64>(),
        t.pick(1_600, 40_000),
        |seed, st| {
            let Some((start, moves)) = find_forced_return(*seed, 3_000) else {
                st.label("no_forced_return_game_found");
                return Ok(());
            };
            let Ok(case) = make_case(&start, &moves) else { return Ok(()) };
            st.sample(|| case_json(&start, &moves));
            st.label("case_with_repetition_history");
            c12_case(&case, st)
        },
        |seed| match find_forced_return(*seed, 3_000) {
            Some((start, moves)) => case_json(&start, &moves),
            None => json!({"fen": null}),
        },
    );
}
fn run_c12_tactical(ctx: &mut Ctx) {
    let t = ctx.tier;
    // few men, sharp content: pawns about to promote (also by capture, inside quiescence), heavy
    // pieces around a cornered king (mates of different lengths at sibling nodes)
    run_prop(
        ctx,
        "shallow_search_vs_reference_promotions_and_mating_nets",
        || {
            let start = prop_oneof![
                3 => placement_promo().prop_map(Start::Placement),
                3 => placement_near_mate().prop_map(Start::Placement),
                4 => placement_heavy_net().prop_map(Start::Placement),
                2 => placement_castle().prop_map(Start::Placement),
                2 => placement_ep().prop_map(Start::Placement),
                4 => placement_advanced_pawns().prop_map(Start::Placement),
                1 => (17usize..22).prop_map(Start::Corpus),
            ];
            (start, proptest::collection::vec(any::<u16>(), 0..5)).prop_map(|(start, choices)| RepRecipe { walk: WalkRecipe { start, choices }, cycles: 0, c1: 0, c2: 0, tail_cut: 0 })
        },
        t.pick(18_000, 260_000),
        |r, st| {
            let Some((start, moves)) = rep_moves(r) else { return Ok(()) };
            let mut p = start.clone();
            for m in &moves {
                p = p.apply(m);
            }
            if p.count() > 16 || p.legal_moves().is_empty() {
                st.label("skipped_terminal_or_too_many_men");
                return Ok(());
            }
            let Ok(case) = make_case(&start, &moves) else { return Ok(()) };
            if p.legal_moves().iter().any(|m| m.promo.is_some()) {
                st.label("root_with_promotion_available");
            }
            st.sample(|| case_json(&start, &moves));
            c12_case(&case, st)
        },
        rep_json,
    );
}

/// Directed search for games in which the materially lost side can reach a twice-seen position only
/// by force and by transposition: at the root T (loser to move) a rook or queen check has exactly
/// one legal reply, a king step b->a, after which the checking piece simply goes home - and that
/// position S (winner's king on a, winner to move) has occurred twice in a game that went
/// S: Ka-b (=T), m, Kb-a, m-back (=S), Ka-b (=T, the root). No move of the root repeats anything at
/// once, the draw is three plies deep and the last of them is a quiet move.
pub fn forced_return_candidate(x: &mut u64) -> Option<(Pos, Vec<Move>)> {
    let mut next = |n: u64| -> u64 {
        *x = x.wrapping_mul(6364136223846793005).wrapping_add(1442695040888963407);
        ((*x >> 33) * n) >> 31
    };
    let w_white = next(2) == 0; // the winner's colour
    let (wc, lc) = if w_white { (Color::White, Color::Black) } else { (Color::Black, Color::White) };
    let mut t = Pos::empty();
    let mut put = |t: &mut Pos, s: u64, c: Color, k: Kind| -> bool {
        if t.sq[s as usize].is_some() || (k == Kind::Pawn && (s / 8 == 0 || s / 8 == 7)) {
            return false;
        }
        t.sq[s as usize] = Some((c, k));
        true
    };
    // winner: king (often on the rim), queen, up to two minors, up to three pawns; loser: king, rook, up to two pawns
    let rim: Vec<u64> = (0..64u64).filter(|s| s % 8 == 0 || s % 8 == 7 || s / 8 == 0 || s / 8 == 7).collect();
    let wk = if next(3) != 0 { rim[next(rim.len() as u64) as usize] } else { next(64) };
    put(&mut t, wk, wc, Kind::King);
    if !put(&mut t, next(64), lc, Kind::King) || !put(&mut t, next(64), wc, Kind::Queen) || !put(&mut t, next(64), lc, if next(4) == 0 { Kind::Queen } else { Kind::Rook }) {
        return None;
    }
    for _ in 0..next(3) {
        put(&mut t, next(64), wc, if next(2) == 0 { Kind::Knight } else { Kind::Bishop });
    }
    for _ in 0..next(4) {
        // winner's pawns tend to stand next to its king (a shield that limits the king's flight squares)
        let s = (((wk / 8) as i64 + next(3) as i64 - 1).clamp(1, 6) * 8 + ((wk % 8) as i64 + next(3) as i64 - 1).clamp(0, 7)) as u64;
        put(&mut t, s, wc, Kind::Pawn);
    }
    for _ in 0..next(3) {
        put(&mut t, next(64), lc, Kind::Pawn);
    }
    t.stm = lc;
    if !t.is_legal_position() || t.in_check(lc) {
        return None;
    }
    // the side that can force the return must be the materially lost one (by a minor piece at least)
    let val = |k: Kind| match k {
        Kind::Pawn => 100,
        Kind::Knight | Kind::Bishop => 320,
        Kind::Rook => 500,
        Kind::Queen => 900,
        Kind::King => 0,
    };
    let bal: i32 = t.sq.iter().flatten().map(|&(c, k)| if c == wc { val(k) } else { -val(k) }).sum();
    if bal < 300 {
        return None;
    }
    let b = wk as u8;
    for l1 in t.legal_moves() {
        let piece = t.sq[l1.from as usize].map(|x| x.1);
        if !matches!(piece, Some(Kind::Rook) | Some(Kind::Queen)) || t.sq[l1.to as usize].is_some() {
            continue;
        }
        let a1 = t.apply(&l1);
        if !a1.in_check(wc) {
            continue;
        }
        let replies = a1.legal_moves();
        if replies.len() != 1 || replies[0].from != b || a1.sq[replies[0].to as usize].is_some() {
            continue;
        }
        let w1 = replies[0].clone();
        let a = w1.to;
        let a2 = a1.apply(&w1);
        let l2 = Move { from: l1.to, to: l1.from, promo: None };
        if !a2.legal_moves().contains(&l2) {
            continue;
        }
        let s_pos = a2.apply(&l2); // winner to move, king on a
        // the game: S, Ka-b, m, Kb-a, m-back, Ka-b
        let kab = Move { from: a, to: b, promo: None };
        if !s_pos.legal_moves().contains(&kab) || s_pos.apply(&kab) != t {
            continue;
        }
        for m in t.legal_moves() {
            if t.sq[m.to as usize].is_some() || matches!(t.sq[m.from as usize], Some((_, Kind::Pawn))) || m == l1 {
                continue;
            }
            let u = t.apply(&m);
            let kba = Move { from: b, to: a, promo: None };
            if !u.legal_moves().contains(&kba) {
                continue;
            }
            let v = u.apply(&kba);
            let mb = Move { from: m.to, to: m.from, promo: None };
            if !v.legal_moves().contains(&mb) || v.apply(&mb) != s_pos {
                continue;
            }
            return Some((s_pos, vec![kab.clone(), m, kba, mb, kab]));
        }
    }
    None
}
pub fn find_forced_return(seed: u64, tries: u32) -> Option<(Pos, Vec<Move>)> {
    let mut x = seed | 1;
    (0..tries).find_map(|_| forced_return_candidate(&mut x))
}

pub fn replay_c12(case: &Value) -> CaseResult {
    let (start, moves) = parse_game_case(case)?;
    let c = make_case(&start, &moves)?;
    if c.root.legal_moves().is_empty() {
        return Ok(());
    }
    c12_case(&c, &mut Stats::new())
}

// ---------------------------------------------------------------------------------------------
// C11

fn is_mate_move(p: &Pos, m: &Move) -> bool {
    p.apply(m).is_checkmate()
}
fn allows_mate_in_one(p: &Pos, m: &Move) -> bool {
    let q = p.apply(m);
    q.legal_moves().iter().any(|r| q.apply(r).is_checkmate())
}

pub fn c11_case(case: &SearchCase, kmax: u64, st: &mut Stats) -> CaseResult {
    c11_case_opt(case, kmax, true, st)
}
/// `judge_ii` = false for cases with a game history: a move that "walks into a mate in one" may be
/// a correct choice when the mating reply would be a third occurrence, so clause (ii) is only judged
/// on history-free cases; (i) and (iii) hold with any history
pub fn c11_case_opt(case: &SearchCase, kmax: u64, judge_ii: bool, st: &mut Stats) -> CaseResult {
    st.eval();
    // The FEN's move counters are part of "every legal position": half of the cases are rebuilt
    // with a half-move clock of up to 99 (a quiet mating move then makes the hundredth half-move;
    // checkmate ends the game whatever the clock says) and large move numbers.
    let counters = [(0u32, 1u32), (99, 80), (0, 1), (98, 120), (99, 1), (0, 1), (50, 60), (99, 300)][(fp(&(case.start.fen(), case.moves.iter().map(mv_name).collect::<Vec<_>>())) % 8) as usize];
    let rebuilt;
    let case = if counters != (0, 1) {
        crate::props::hash::FEN_COUNTERS.with(|c| c.set(counters));
        let r = make_case(&case.start, &case.moves);
        crate::props::hash::FEN_COUNTERS.with(|c| c.set((0, 1)));
        rebuilt = r?;
        st.label(if counters.0 >= 98 { "fen_half_move_clock_98_or_99" } else { "fen_counters_not_0_1" });
        &rebuilt
    } else {
        case
    };
    let p = &case.root;
    let at = || format!("'{}' (counters {} {}) after {:?}", case.start.fen(), counters.0, counters.1, case.moves.iter().map(mv_name).collect::<Vec<_>>());
    let legal = p.legal_moves();
    let mating: Vec<Move> = legal.iter().filter(|m| is_mate_move(p, m)).cloned().collect();
    let walks_into: Vec<bool> = legal.iter().map(|m| allows_mate_in_one(p, m)).collect();
    let can_avoid = judge_ii && walks_into.iter().any(|x| !x);
    let some_walk = walks_into.iter().any(|x| *x);
    let m1 = !mating.is_empty();
    let special_only = m1 && mating.iter().all(|m| matches!(m.promo, Some(Kind::Knight) | Some(Kind::Rook) | Some(Kind::Bishop)) || matches!(p.classify(m), MoveClass::Castle | MoveClass::EnPassant));
    let class = if m1 {
        if special_only {
            "mate_in_1_only_by_underpromotion_castling_or_ep"
        } else {
            "mate_in_1"
        }
    } else if some_walk && can_avoid {
        "avoidable_mate_in_1_threat"
    } else if some_walk {
        "unavoidable_mate_in_1_threat"
    } else if legal.iter().any(|m| p.apply(m).is_stalemate()) {
        "stalemate_available"
    } else {
        "none"
    };
    st.label(&format!("class: {}", class));
    let reference = run_search(&case.board, &case.table, kmax);
    if reference.panic.is_some() {
        st.unjudged += 1; // C07's subject
        return Ok(());
    }
    let mut infos = vec![];
    for (_, l) in &reference.lines {
        infos.push(parse_info(l)?);
    }
    if reference.sends.len() < infos.len() {
        return Ok(()); // C07's subject
    }
    let sends: Vec<Move> = reference.sends.iter().take(infos.len()).filter_map(|b| desc(b).ok()).collect();
    let first_d2 = infos.iter().position(|i| i.depth >= 2);
    let first_d3 = infos.iter().position(|i| i.depth >= 3);
    // (i) a mate in one is played at every expiry point after iteration 1 has finished
    if m1 {
        if let Some(ix) = first_d2 {
            for j in ix..sends.len() {
                if !is_mate_move(p, &sends[j]) {
                    let (lo, hi) = (reference.lines[j].0, reference.lines.get(j + 1).map(|l| l.0).unwrap_or(reference.queries));
                    // confirm with a real run at that expiry point
                    let k = lo;
                    let confirm = run_search(&case.board, &case.table, k);
                    let played = confirm.sends.last().and_then(|b| desc(b).ok());
                    if played.map(|m| !is_mate_move(p, &m)).unwrap_or(false) {
                        return Err(format!("a mate in one exists ({:?}) and iteration 1 has finished, but with the clock expiring at consultation {} (any of {}..{}) the engine plays {} which does not mate, at {}", mating.iter().map(mv_name).collect::<Vec<_>>(), k, lo, hi, mv_name(&sends[j]), at()));
                    }
                }
            }
        }
    }
    // (i') and (ii'): a search that ends of its own accord before the clock expires was allowed every
    // iteration it wanted - whatever it played last is judged like an answer after iteration 1 / 2
    let ended_by_itself = reference.queries < kmax;
    if ended_by_itself {
        st.label("search_ended_before_the_clock_expired");
        if let Some(last) = reference.sends.last().and_then(|b| desc(b).ok()) {
            if m1 && !is_mate_move(p, &last) {
                return Err(format!("a mate in one exists ({:?}); the search ended of its own accord after {} of {} allowed clock consultations and plays {} which does not mate, at {}", mating.iter().map(mv_name).collect::<Vec<_>>(), reference.queries, kmax, mv_name(&last), at()));
            }
            if !m1 && can_avoid && allows_mate_in_one(p, &last) {
                return Err(format!("the opponent's mate in one can be avoided; the search ended of its own accord after {} of {} allowed clock consultations and plays {} which allows mate on the next move, at {}", reference.queries, kmax, mv_name(&last), at()));
            }
        }
    }
    // (ii) once iteration 2 has finished the engine does not walk into a mate in one it can avoid
    if can_avoid {
        if let Some(ix) = first_d3 {
            for j in ix..sends.len() {
                if allows_mate_in_one(p, &sends[j]) {
                    let k = reference.lines[j].0;
                    let confirm = run_search(&case.board, &case.table, k);
                    let played = confirm.sends.last().and_then(|b| desc(b).ok());
                    if played.map(|m| allows_mate_in_one(p, &m)).unwrap_or(false) {
                        return Err(format!("the opponent's mate in one can be avoided and iteration 2 has finished, but with the clock expiring at consultation {} the engine plays {} which allows mate on the next move, at {}", k, mv_name(&sends[j]), at()));
                    }
                }
            }
        }
    }
    // direct re-runs at sampled expiry points (the timeline is not taken on trust)
    if m1 || (can_avoid && some_walk) {
        if let Some(ix) = if m1 { first_d2 } else { first_d3 } {
            let lo = reference.lines[ix].0;
            let hi = reference.queries.max(lo + 1);
            for s in 0..6u64 {
                let k = lo + mix(s ^ fp(&p.sq)) % (hi - lo);
                let r = run_search(&case.board, &case.table, k);
                st.label("direct_rerun");
                if let Some(m) = r.sends.last().and_then(|b| desc(b).ok()) {
                    if m1 && !is_mate_move(p, &m) {
                        return Err(format!("a mate in one exists ({:?}) and iteration 1 has finished, but with the clock expiring at consultation {} the engine plays {} which does not mate, at {}", mating.iter().map(mv_name).collect::<Vec<_>>(), k, mv_name(&m), at()));
                    }
                    if !m1 && allows_mate_in_one(p, &m) {
                        return Err(format!("the opponent's mate in one can be avoided and iteration 2 has finished, but with the clock expiring at consultation {} the engine plays {} which allows mate on the next move, at {}", k, mv_name(&m), at()));
                    }
                }
            }
        }
    }
    // (iii) mate announcements
    let mut solver = Solver::with_memo(3_000_000);
    for (j, i) in infos.iter().enumerate() {
        if let Score::Mate(n) = i.score {
            st.label("mate_claims");
            let completed_depth_final = j + 1 < infos.len() && infos[j + 1].depth > i.depth;
            if n == 0 {
                return Err(format!("`score mate 0` at {}: {:?}", at(), i.sans_time));
            }
            if n < 0 && !completed_depth_final {
                continue; // an intermediate line scores the first root moves tried, not the position
            }
            // claims up to 3 moves are always judged; up to 5 when few men are left (memoised solver,
            // shared by all lines of this case), beyond that: unjudged
            let men = p.sq.iter().filter(|x| x.is_some()).count();
            if n.abs() > 5 || (n.abs() > 3 && men > 7) {
                st.unjudged += 1;
                continue;
            }
            if n.abs() > 3 {
                st.label("mate_claims_of_4_or_5_moves_judged");
            }
            solver.budget = if n.abs() > 3 { 600_000 } else { 3_000_000 };
            let verdict = if n > 0 { solver.mate_in(p, n as u32) } else { solver.mated_in(p, (-n) as u32) };
            match verdict {
                None => st.unjudged += 1,
                Some(true) => st.label(if n > 0 { "true_mate_claims_positive" } else { "true_mate_claims_negative" }),
                Some(false) => {
                    return Err(format!("the engine announces `mate {}` but {} at {}: {:?}", n, if n > 0 { format!("no forced mate in {} moves exists", n) } else { format!("the side to move is not mated within {} moves against best play", -n) }, at(), i.sans_time));
                }
            }
        }
    }
    if class != "none" {
        st.nontrivial(fp(&(&case.start, &case.moves)));
    }
    Ok(())
}

/// near-mate placements plus constructed variants: if the base position has a mating move by a
/// piece X to a square t, variant 1 puts X on another square it could have come from; variant 2
/// (X a knight/rook/bishop arriving on the last rank) replaces it by a pawn about to promote, which
/// gives mates deliverable only by under-promotion.
#[derive(Debug, Clone)]
pub struct MateRecipe {
    pub base: PlacementRecipe,
    pub variant: u8,
    pub c: u16,
    pub pre: Vec<u16>,
}
pub fn mate_position(r: &MateRecipe) -> Option<Pos> {
    let p0 = build_placement(&r.base)?;
    if r.variant % 3 == 0 {
        return Some(p0);
    }
    // a mating move in p0, or in the position with the other side to move
    let legal = p0.legal_moves();
    let mut mates: Vec<Move> = legal.iter().filter(|m| is_mate_move(&p0, m)).cloned().collect();
    mates.sort();
    if mates.is_empty() {
        return Some(p0);
    }
    let m = mates[(r.c as usize * mates.len()) >> 16];
    let after = p0.apply(&m);
    let (col, kind) = after.sq[m.to as usize]?;
    let us = p0.stm;
    if r.variant % 3 == 2 && matches!(kind, Kind::Knight | Kind::Rook | Kind::Bishop) && (rank_of(m.to) == 7 && us == Color::White || rank_of(m.to) == 0 && us == Color::Black) {
        // a pawn one step before promotion on the same file
        let from = mk(file_of(m.to), if us == Color::White { 6 } else { 1 })?;
        let mut q = p0.clone();
        if m.promo.is_none() {
            q.sq[m.from as usize] = None;
        }
        if q.sq[from as usize].is_some() && from != m.from {
            return Some(p0);
        }
        if q.sq[m.to as usize].is_some() {
            return Some(p0);
        }
        q.sq[from as usize] = Some((col, Kind::Pawn));
        q.ep = None;
        if q.is_legal_position() && !q.legal_moves().is_empty() {
            return Some(q);
        }
        return Some(p0);
    }
    // variant 1: X comes from another square
    if kind == Kind::Pawn || kind == Kind::King || m.promo.is_some() {
        return Some(p0);
    }
    let mut q = p0.clone();
    q.sq[m.from as usize] = None;
    let mut origins: Vec<u8> = (0..64u8).filter(|&s| s != m.from && q.sq[s as usize].is_none() && s != m.to).collect();
    origins.retain(|&s| {
        let mut t = q.clone();
        t.sq[s as usize] = Some((col, kind));
        t.man_attacks(s, (col, kind), m.to)
    });
    if origins.is_empty() {
        return Some(p0);
    }
    let s = origins[((r.c as usize ^ 0x5555) * origins.len()) >> 16];
    q.sq[s as usize] = Some((col, kind));
    q.ep = None;
    if q.is_legal_position() && !q.legal_moves().is_empty() {
        Some(q)
    } else {
        Some(p0)
    }
}
fn mate_strategy() -> impl Strategy<Value = MateRecipe> {
    (prop_oneof![6 => placement_near_mate(), 2 => placement_heavy_net(), 1 => placement_castle(), 1 => placement_ep()], 0u8..3, any::<u16>(), proptest::collection::vec(any::<u16>(), 0..2)).prop_map(|(base, variant, c, pre)| MateRecipe { base, variant, c, pre })
}
fn mate_case_moves(r: &MateRecipe) -> Option<(Pos, Vec<Move>)> {
    let p = mate_position(r)?;
    // optionally step back one or two plies by playing forward from the constructed position: gives
    // "can avoid mate in one" and mate-in-two cases
    let mut moves = vec![];
    let mut q = p.clone();
    for &c in &r.pre {
        let mut ms = q.legal_moves();
        if ms.is_empty() {
            break;
        }
        ms.sort();
        let m = pick_uniform(&ms, c);
        q = q.apply(&m);
        moves.push(m);
    }
    Some((p, moves))
}

/// C11 is stated without reference to the game history: with a repetition history the engine
/// rightly values a move into a twice-seen position as a draw (C10) even if the opponent could mate
/// there, so C11's cases are the final position alone (no earlier occurrences).
fn root_only(x: (Pos, Vec<Move>)) -> (Pos, Vec<Move>) {
    let mut p = x.0;
    for m in &x.1 {
        p = p.apply(m);
    }
    (p, vec![])
}

/// Dedicated constructor: a mate in one that only a KNIGHT promotion delivers. The defending king
/// stands a knight's move from the promotion square and every flight square the new knight does not
/// cover is blocked by one of its own men; a queen on the promotion square gives no check.
#[derive(Debug, Clone)]
pub struct UnderPromo {
    pub white: bool,
    pub file: u8,
    pub ksel: u8,
    pub fill: Vec<u8>,
    pub ak: u8,
    pub capture: bool,
    pub extra: Vec<(u8, u8)>,
}
pub fn underpromo_position(r: &UnderPromo) -> Option<Pos> {
    let us = if r.white { Color::White } else { Color::Black };
    let (last, seventh) = if r.white { (7i8, 6i8) } else { (0i8, 1i8) };
    let dir = if r.white { -1i8 } else { 1i8 }; // from the last rank towards the board
    let f = (r.file % 8) as i8;
    let t = mk(f, last)?;
    // candidate king squares: a knight's move from t
    let cands: Vec<u8> = [(2, 1), (-2, 1), (1, 2), (-1, 2)].iter().filter_map(|(df, dr)| mk(f + df, last + dir * dr)).collect();
    if cands.is_empty() {
        return None;
    }
    let k = cands[r.ksel as usize % cands.len()];
    let mut p = Pos::empty();
    p.sq[k as usize] = Some((us.opp(), Kind::King));
    // the pawn: straight push, or capturing a defender's piece on t from an adjacent file
    let from = if r.capture {
        let ff = if f > 0 { f - 1 } else { f + 1 };
        p.sq[t as usize] = Some((us.opp(), Kind::Rook));
        mk(ff, seventh)?
    } else {
        mk(f, seventh)?
    };
    if p.sq[from as usize].is_some() {
        return None;
    }
    p.sq[from as usize] = Some((us, Kind::Pawn));
    // block the flights the knight will not cover
    let mut i = 0;
    for df in -1i8..=1 {
        for dr in -1i8..=1 {
            if df == 0 && dr == 0 {
                continue;
            }
            let Some(s) = mk(file_of(k) + df, rank_of(k) + dr) else { continue };
            let covered = {
                let (a, b) = ((file_of(s) - f).abs(), (rank_of(s) - last).abs());
                (a == 1 && b == 2) || (a == 2 && b == 1)
            };
            if covered || p.sq[s as usize].is_some() {
                continue;
            }
            let kind = match r.fill.get(i).cloned().unwrap_or(0) % 4 {
                0 => Kind::Pawn,
                1 => Kind::Knight,
                2 => Kind::Bishop,
                _ => Kind::Pawn,
            };
            i += 1;
            let kind = if kind == Kind::Pawn && (rank_of(s) == 0 || rank_of(s) == 7) { Kind::Bishop } else { kind };
            p.sq[s as usize] = Some((us.opp(), kind));
        }
    }
    let ak = r.ak as usize % 64;
    if p.sq[ak].is_some() {
        return None;
    }
    p.sq[ak] = Some((us, Kind::King));
    for &(kk, s) in &r.extra {
        let s = s as usize % 64;
        if p.sq[s].is_none() {
            let kind = [Kind::Pawn, Kind::Knight, Kind::Bishop][kk as usize % 3];
            if kind == Kind::Pawn && (s / 8 == 0 || s / 8 == 7) {
                continue;
            }
            p.sq[s] = Some((us, kind));
        }
    }
    p.stm = us;
    if !p.is_legal_position() {
        return None;
    }
    // keep it only if it is what it is meant to be: mate in one, deliverable only by under-promotion
    let mates: Vec<Move> = p.legal_moves().into_iter().filter(|m| is_mate_move(&p, m)).collect();
    if mates.is_empty() || !mates.iter().all(|m| matches!(m.promo, Some(Kind::Knight) | Some(Kind::Rook) | Some(Kind::Bishop))) {
        return None;
    }
    Some(p)
}
fn underpromo_strategy() -> impl Strategy<Value = UnderPromo> {
    (any::<bool>(), 0u8..8, 0u8..4, proptest::collection::vec(0u8..4, 8), 0u8..64, any::<bool>(), proptest::collection::vec((0u8..3, 0u8..64), 0..3))
        .prop_map(|(white, file, ksel, fill, ak, capture, extra)| UnderPromo { white, file, ksel, fill, ak, capture, extra })
}

/// Exhaustive mini-family: king + one minor piece against king + one minor piece with the
/// defending king in a corner region, attacker to move - every such position that contains a mate in
/// one (the material a "draw by insufficient material" shortcut would get wrong).
fn minor_piece_decode(i: u64) -> Option<Pos> {
    let mut i = i;
    let dkind = if i % 2 == 0 { Kind::Knight } else { Kind::Bishop };
    i /= 2;
    let doff = (i % 25) as i8;
    i /= 25;
    let akind = if i % 2 == 0 { Kind::Knight } else { Kind::Bishop };
    i /= 2;
    let asq = (i % 64) as u8;
    i /= 64;
    let aoff = (i % 25) as i8;
    i /= 25;
    let region: [u8; 12] = [0, 1, 8, 7, 6, 15, 56, 57, 48, 63, 62, 55];
    let dk = region[(i % 12) as usize];
    i /= 12;
    let att = if i % 2 == 0 { Color::White } else { Color::Black };
    let near = |o: i8| mk(file_of(dk) + o % 5 - 2, rank_of(dk) + o / 5 - 2);
    let ak = near(aoff)?;
    let dm = near(doff)?;
    let mut p = Pos::empty();
    for (s, man) in [(dk, (att.opp(), Kind::King)), (ak, (att, Kind::King)), (asq, (att, akind)), (dm, (att.opp(), dkind))] {
        if p.sq[s as usize].is_some() {
            return None;
        }
        p.sq[s as usize] = Some(man);
    }
    p.stm = att;
    if !p.is_legal_position() {
        return None;
    }
    if p.legal_moves().iter().any(|m| is_mate_move(&p, m)) {
        Some(p)
    } else {
        None
    }
}
const MINOR_SPACE: u64 = 2 * 25 * 2 * 64 * 25 * 12 * 2;

/// Directed search for a rare geometry: the side to move has a mate in one AND another checking
/// move after which EVERY legal reply gives check back (cross-check) and is answered by mate. Every
/// ply of such a line gives check, so the check extensions prove that longer mate already in the
/// first iteration - a search that stops at "the first forced mate found" plays it instead of the
/// mate in one. Candidates are drawn from a deterministic stream (seed) and filtered by the oracle.
pub fn cross_check_candidate(x: &mut u64) -> Option<Pos> {
    let mut next = |n: u64| -> u64 {
        *x = x.wrapping_mul(6364136223846793005).wrapping_add(1442695040888963407);
        ((*x >> 33) * n) >> 31
    };
    let mut p = Pos::empty();
    let white_attacks = next(2) == 0;
    let (a, d) = if white_attacks { (Color::White, Color::Black) } else { (Color::Black, Color::White) };
    // defending king on the rim, some pawns in front of it
    let rim: Vec<u8> = (0..64u8).filter(|s| s % 8 == 0 || s % 8 == 7 || s / 8 == 0 || s / 8 == 7).collect();
    let dk = rim[next(rim.len() as u64) as usize];
    p.sq[dk as usize] = Some((d, Kind::King));
    let put = |p: &mut Pos, s: u8, c: Color, k: Kind| {
        if p.sq[s as usize].is_none() && !(k == Kind::Pawn && (s / 8 == 0 || s / 8 == 7)) {
            p.sq[s as usize] = Some((c, k));
        }
    };
    for _ in 0..next(4) {
        let f = (dk % 8) as i64 + next(3) as i64 - 1;
        let r = (dk / 8) as i64 + next(3) as i64 - 1;
        if (0..8).contains(&f) && (0..8).contains(&r) {
            put(&mut p, (r * 8 + f) as u8, d, Kind::Pawn);
        }
    }
    let ak = next(64) as u8;
    if p.sq[ak as usize].is_some() {
        return None;
    }
    p.sq[ak as usize] = Some((a, Kind::King));
    let dkinds = [Kind::Rook, Kind::Rook, Kind::Rook, Kind::Queen, Kind::Bishop, Kind::Knight];
    for _ in 0..1 + next(3) {
        let k = dkinds[next(6) as usize];
        // defenders tend to stand near their king or on the attacker's king lines
        let s = if next(2) == 0 { next(64) as u8 } else { ((((dk / 8) as i64 + next(3) as i64 - 1).clamp(0, 7)) * 8 + ((dk % 8) as i64 + next(5) as i64 - 2).clamp(0, 7)) as u8 };
        put(&mut p, s, d, k);
    }
    let akinds = [Kind::Queen, Kind::Rook, Kind::Rook, Kind::Knight, Kind::Knight, Kind::Bishop];
    for _ in 0..3 + next(3) {
        put(&mut p, next(64) as u8, a, akinds[next(6) as usize]);
    }
    p.stm = a;
    if !p.is_legal_position() || p.in_check(a) {
        return None;
    }
    Some(p)
}
pub fn has_cross_check_line(p: &Pos) -> bool {
    let us = p.stm;
    let legal = p.legal_moves();
    if !legal.iter().any(|m| is_mate_move(p, m)) {
        return false;
    }
    legal.iter().any(|m| {
        let q = p.apply(m);
        if !q.in_check(q.stm) {
            return false;
        }
        let replies = q.legal_moves();
        !replies.is_empty()
            && replies.iter().all(|r| {
                let z = q.apply(r);
                z.in_check(us) && z.legal_moves().iter().any(|f| z.apply(f).is_checkmate())
            })
    })
}
pub fn find_cross_check(seed: u64, tries: u32) -> Option<Pos> {
    let mut x = seed | 1;
    for _ in 0..tries {
        if let Some(p) = cross_check_candidate(&mut x) {
            if has_cross_check_line(&p) {
                return Some(p);
            }
        }
    }
    None
}

/// Directed search for roots at which null-move pruning is unsound: the defender S (bare king, or
/// king and a blocked pawn) has exactly one move that holds out longer than two moves, and the
/// position after it is a bounded reciprocal zugzwang - the attacker to move cannot mate within two
/// moves, but if the attacker could pass, S would be mated within two. A null-move probe at that node
/// "proves" the short mate, so a search that trusts such a probe can announce a mate that is too short. (This family is dense in tempo / zugzwang play; the exact horizon coincidence that the seeded change C11E needs - sibling mate length equal to the iteration depth - is NOT constructed, see DESIGN §11.2.)
pub fn zugzwang_root_stage(x: &mut u64) -> Result<Pos, u8> {
    let mut next = |n: u64| -> u64 {
        *x = x.wrapping_mul(6364136223846793005).wrapping_add(1442695040888963407);
        ((*x >> 33) * n) >> 31
    };
    let s_white = next(2) == 0;
    let (sc, oc) = if s_white { (Color::White, Color::Black) } else { (Color::Black, Color::White) };
    let mut z = Pos::empty();
    // S king in the corner region, O king within three squares of it
    // S king within two squares of a corner, O king within three squares of it
    let corner = [(0i64, 0i64), (0, 7), (7, 0), (7, 7)][next(4) as usize];
    let sk = ((corner.0 + if corner.0 == 0 { next(3) as i64 } else { -(next(3) as i64) }), (corner.1 + if corner.1 == 0 { next(3) as i64 } else { -(next(3) as i64) }));
    let sk_sq = (sk.0 * 8 + sk.1) as u8;
    z.sq[sk_sq as usize] = Some((sc, Kind::King));
    let ok = ((sk.0 + next(7) as i64 - 3).clamp(0, 7), (sk.1 + next(7) as i64 - 3).clamp(0, 7));
    let ok_sq = (ok.0 * 8 + ok.1) as u8;
    if z.sq[ok_sq as usize].is_some() {
        return Err(1);
    }
    z.sq[ok_sq as usize] = Some((oc, Kind::King));
    let sets: [&[Kind]; 6] = [&[Kind::Rook], &[Kind::Queen], &[Kind::Rook, Kind::Rook], &[Kind::Rook, Kind::Bishop], &[Kind::Rook, Kind::Knight], &[Kind::Bishop, Kind::Bishop]];
    for &k in sets[next(6) as usize] {
        let s = next(64) as usize;
        if z.sq[s].is_none() {
            z.sq[s] = Some((oc, k));
        }
    }
    z.stm = oc;
    if !z.is_legal_position() {
        return Err(2);
    }
    // (a) the attacker to move has no mate within two moves
    let mut solver = Solver::new(200_000);
    if solver.mate_in(&z, 2) != Some(false) {
        return Err(3);
    }
    // (b) with the defender to move instead (the attacker "passes") the defender is mated within two
    let mut zp = z.clone();
    zp.stm = sc;
    if !zp.is_legal_position() || zp.legal_moves().is_empty() || solver.mated_in(&zp, 2) != Some(true) {
        return Err(4);
    }
    // root: the S king came from a neighbouring square
    let mut origins = vec![];
    for dr in -1i64..=1 {
        for df in -1i64..=1 {
            let (r, f) = (sk.0 + dr, sk.1 + df);
            if (dr, df) != (0, 0) && (0..8).contains(&r) && (0..8).contains(&f) && z.sq[(r * 8 + f) as usize].is_none() {
                origins.push((r * 8 + f) as u8);
            }
        }
    }
    if origins.is_empty() {
        return Err(5);
    }
    let from = origins[next(origins.len() as u64) as usize];
    let mut root = z.clone();
    root.sq[sk_sq as usize] = None;
    root.sq[from as usize] = Some((sc, Kind::King));
    root.stm = sc;
    if !root.is_legal_position() {
        return Err(6);
    }
    // (c) every other move of S is mated within two; the root itself is not (the one move holds out longer)
    let legal = root.legal_moves();
    if legal.len() < 2 || !legal.iter().any(|m| m.to == sk_sq) {
        return Err(7);
    }
    for m in &legal {
        if m.to != sk_sq && solver.mate_in(&root.apply(m), 2) != Some(true) {
            return Err(8);
        }
    }
    if Solver::new(2_000_000).mated_in(&root, 2) != Some(false) {
        return Err(9);
    }
    Ok(root)
}
pub fn zugzwang_root_candidate(x: &mut u64) -> Option<Pos> {
    zugzwang_root_stage(x).ok()
}
/// Sharper variant used to build the embedded corpus `zz_corpus.txt` (dev-zz3): attacker K+Q (now
/// and then K+R or K+Q+minor), defender K + one or two pawns each BLOCKED by an attacking man
/// standing directly in front of it (so the attacker has no free tempo move), defender's king on
/// the rim. Z (attacker to move): no mate within 3; with the defender to move instead every move
/// walks into a mate in one. Root = Z with the defender's king one step back; every other root
/// move is mated within exactly 3. Returns (root, stage reached) for rate measurements.
pub fn zz3_candidate(x: &mut u64) -> Result<Pos, u8> {
    let mut next = |n: u64| -> u64 {
        *x = x.wrapping_mul(6364136223846793005).wrapping_add(1442695040888963407);
        ((*x >> 33) * n) >> 31
    };
    let s_white = next(2) == 0;
    let (sc, oc) = if s_white { (Color::White, Color::Black) } else { (Color::Black, Color::White) };
    let fwd: i64 = if s_white { 8 } else { -8 }; // direction the defender's pawns move
    let mut z = Pos::empty();
    let rim: Vec<u8> = (0..64u8).filter(|s| s % 8 == 0 || s % 8 == 7 || s / 8 == 0 || s / 8 == 7).collect();
    let sk = rim[next(rim.len() as u64) as usize];
    z.sq[sk as usize] = Some((sc, Kind::King));
    let near = |c: u8, d: i64, next: &mut dyn FnMut(u64) -> u64| -> u8 {
        let r = ((c / 8) as i64 + next((2 * d + 1) as u64) as i64 - d).clamp(0, 7);
        let f = ((c % 8) as i64 + next((2 * d + 1) as u64) as i64 - d).clamp(0, 7);
        (r * 8 + f) as u8
    };
    let okq = near(sk, 3, &mut next);
    if z.sq[okq as usize].is_some() {
        return Err(1);
    }
    z.sq[okq as usize] = Some((oc, Kind::King));
    let heavy = if next(5) == 0 { Kind::Rook } else { Kind::Queen };
    let hq = near(sk, 4, &mut next);
    if z.sq[hq as usize].is_some() {
        return Err(1);
    }
    z.sq[hq as usize] = Some((oc, heavy));
    if next(4) == 0 {
        let m = next(64) as usize;
        if z.sq[m].is_none() {
            z.sq[m] = Some((oc, if next(2) == 0 { Kind::Knight } else { Kind::Bishop }));
        }
    }
    // defender's pawns, each directly behind (from its point of view) an attacking man
    let blockers: Vec<u8> = (0..64u8).filter(|&s| matches!(z.sq[s as usize], Some((c, _)) if c == oc)).collect();
    for _ in 0..1 + next(2) {
        let b = blockers[next(blockers.len() as u64) as usize] as i64;
        let ps = b - fwd;
        if (8..56).contains(&ps) && z.sq[ps as usize].is_none() {
            z.sq[ps as usize] = Some((sc, Kind::Pawn));
        }
    }
    if next(3) == 0 {
        // a free-standing extra pawn pair blocked against each other somewhere
        let a = 8 + next(40) as i64;
        let (lo, hi) = (a, a + 8);
        if z.sq[lo as usize].is_none() && z.sq[hi as usize].is_none() {
            z.sq[lo as usize] = Some((Color::White, Kind::Pawn));
            z.sq[hi as usize] = Some((Color::Black, Kind::Pawn));
        }
    }
    z.stm = oc;
    if !z.is_legal_position() {
        return Err(2);
    }
    // (b) first, it is the cheap one: defender to move instead - every move walks into a mate in one
    let mut zp = z.clone();
    zp.stm = sc;
    if !zp.is_legal_position() || zp.in_check(sc) {
        return Err(3);
    }
    let sm = zp.legal_moves();
    if sm.is_empty() {
        return Err(3);
    }
    for m in &sm {
        let a = zp.apply(m);
        if !a.legal_moves().iter().any(|r| a.apply(r).is_checkmate()) {
            return Err(4);
        }
    }
    // (a) the attacker, having to move, cannot mate within three
    if Solver::with_memo(1_500_000).mate_in(&z, 3) != Some(false) {
        return Err(5);
    }
    // root: the defender's king came from a neighbouring square; all its other moves lose within three
    let (kr, kf) = ((sk / 8) as i64, (sk % 8) as i64);
    let mut origins = vec![];
    for dr in -1i64..=1 {
        for df in -1i64..=1 {
            let (r, f) = (kr + dr, kf + df);
            if (dr, df) != (0, 0) && (0..8).contains(&r) && (0..8).contains(&f) && z.sq[(r * 8 + f) as usize].is_none() {
                origins.push((r * 8 + f) as u8);
            }
        }
    }
    let mut found = None;
    for from in origins {
        let mut root = z.clone();
        root.sq[sk as usize] = None;
        root.sq[from as usize] = Some((sc, Kind::King));
        root.stm = sc;
        if !root.is_legal_position() {
            continue;
        }
        let legal = root.legal_moves();
        if legal.len() < 2 || !legal.iter().any(|m| m.from == from && m.to == sk) {
            continue;
        }
        let mut solver = Solver::with_memo(1_500_000);
        if legal.iter().filter(|m| !(m.from == from && m.to == sk)).all(|m| solver.mate_in(&root.apply(m), 3) == Some(true)) {
            found = Some(root);
            break;
        }
    }
    found.ok_or(6)
}

pub fn find_zz3(seed: u64, tries: u32) -> Option<Pos> {
    let mut x = seed | 1;
    (0..tries).find_map(|_| zz3_candidate(&mut x).ok())
}
pub fn find_zugzwang_root(seed: u64, tries: u32) -> Option<Pos> {
    let mut x = seed | 1;
    (0..tries).find_map(|_| zugzwang_root_candidate(&mut x))
}

pub fn run_c11(ctx: &mut Ctx) {
    let t = ctx.tier;
    {
        let kmax: u64 = t.pick(3_000, 10_000);
        run_enum(
            ctx,
            "minor_piece_mates_in_one_exhaustive",
            MINOR_SPACE,
            true,
            move |i, st| {
                let Some(p) = minor_piece_decode(i) else { return Ok(()) };
                let Ok(case) = make_case(&p, &[]) else { return Ok(()) };
                if st.samples.len() < 2 {
                    st.sample(|| case_json(&p, &[]));
                }
                c11_case(&case, kmax, st)
            },
            move |i| {
                let mut v = match minor_piece_decode(i) {
                    Some(p) => case_json(&p, &[]),
                    None => json!({"fen": null}),
                };
                v["kmax"] = json!(kmax);
                v
            },
        );
    }
    ctx.max_shrink_iters = 200;
    let kmax: u64 = t.pick(4_000, 12_000);
    run_prop(
        ctx,
        "near_mate_constructions",
        mate_strategy,
        t.pick(15_000, 400_000),
        move |r, st| {
            let Some((start, moves)) = mate_case_moves(r).map(root_only) else {
                st.label("recipe_discarded");
                return Ok(());
            };
            let Ok(case) = make_case(&start, &moves) else { return Ok(()) };
            if case.root.legal_moves().is_empty() {
                st.label("terminal_root_skipped");
                return Ok(());
            }
            st.sample(|| case_json(&start, &moves));
            c11_case(&case, kmax, st)
        },
        move |r| {
            let mut v = match mate_case_moves(r).map(root_only) {
                Some((s, m)) => case_json(&s, &m),
                None => json!({"fen": null}),
            };
            v["kmax"] = json!(kmax);
            v
        },
    );
    run_prop(
        ctx,
        "mate_in_one_beside_a_cross_check_mate",
        || any::<u64>(),
        t.pick(700, 24_000),
        move |seed, st| {
            let Some(p) = find_cross_check(*seed, 40_000) else {
                st.label("no_cross_check_position_found_in_40000_candidates");
                return Ok(());
            };
            let Ok(case) = make_case(&p, &[]) else { return Ok(()) };
            st.sample(|| case_json(&p, &[]));
            st.label("cross_check_line_beside_mate_in_one");
            c11_case(&case, kmax, st)
        },
        move |seed| {
            let mut v = match find_cross_check(*seed, 40_000) {
                Some(p) => case_json(&p, &[]),
                None => json!({"fen": null}),
            };
            v["kmax"] = json!(kmax);
            v
        },
    );
    {
        let kmax: u64 = t.pick(150_000, 400_000);
        run_prop(
            ctx,
            "roots_before_a_bounded_reciprocal_zugzwang",
            || any::<u64>(),
            t.pick(128, 6_000),
            move |seed, st| {
                // three in four: the sharper construction (blocked pawns, attacker without a tempo
                // move, sibling moves mated in exactly three); one in four: the plain one
                let found = if seed % 4 != 0 { find_zz3(*seed, 200_000) } else { find_zugzwang_root(*seed, 6_000) };
                let Some(p) = found else {
                    st.label("no_zugzwang_root_found");
                    return Ok(());
                };
                let Ok(case) = make_case(&p, &[]) else { return Ok(()) };
                st.sample(|| case_json(&p, &[]));
                st.label("single_saving_move_into_reciprocal_zugzwang");
                c11_case(&case, kmax, st)?;
                st.nontrivial(fp(&p.fen()));
                Ok(())
            },
            move |seed| {
                let mut v = match if seed % 4 != 0 { find_zz3(*seed, 200_000) } else { find_zugzwang_root(*seed, 6_000) } {
                    Some(p) => case_json(&p, &[]),
                    None => json!({"fen": null}),
                };
                v["kmax"] = json!(kmax);
                v
            },
        );
    }
    run_prop(
        ctx,
        "near_mate_positions_reached_through_a_game_with_repetitions",
        mate_strategy,
        t.pick(6_000, 150_000),
        move |r, st| {
            let Some((start, mut moves)) = mate_case_moves(r) else {
                st.label("recipe_discarded");
                return Ok(());
            };
            // a history: the position before the last two plies repeated once or twice (out and back)
            let mut p = start.clone();
            for m in &moves {
                p = p.apply(m);
            }
            if let Some(c) = find_cycle(&p, r.c, r.c.rotate_left(7)) {
                for _ in 0..1 + (r.variant % 2) {
                    moves.extend(c.iter().cloned());
                }
                st.label("history_with_repetition_cycles");
            }
            if moves.is_empty() {
                return Ok(());
            }
            let Ok(case) = make_case(&start, &moves) else { return Ok(()) };
            if case.root.legal_moves().is_empty() {
                st.label("terminal_root_skipped");
                return Ok(());
            }
            st.sample(|| case_json(&start, &moves));
            c11_case_opt(&case, kmax, false, st)
        },
        move |r| {
            let mut v = json!({"fen": null});
            if let Some((start, mut moves)) = mate_case_moves(r) {
                let mut p = start.clone();
                for m in &moves {
                    p = p.apply(m);
                }
                if let Some(c) = find_cycle(&p, r.c, r.c.rotate_left(7)) {
                    for _ in 0..1 + (r.variant % 2) {
                        moves.extend(c.iter().cloned());
                    }
                }
                v = case_json(&start, &moves);
                v["with_history"] = json!(true);
            }
            v["kmax"] = json!(kmax);
            v
        },
    );
    run_prop(
        ctx,
        "mate_only_by_knight_promotion",
        underpromo_strategy,
        t.pick(18_000, 300_000),
        move |r, st| {
            let Some(p) = underpromo_position(r) else {
                st.label("recipe_discarded_not_an_underpromotion_mate");
                return Ok(());
            };
            let Ok(case) = make_case(&p, &[]) else { return Ok(()) };
            st.sample(|| case_json(&p, &[]));
            c11_case(&case, kmax, st)
        },
        move |r| {
            let mut v = match underpromo_position(r) {
                Some(p) => case_json(&p, &[]),
                None => json!({"fen": null}),
            };
            v["kmax"] = json!(kmax);
            v
        },
    );
    run_prop(
        ctx,
        "endgame_and_game_walks",
        || rep_strategy(60, true),
        t.pick(4_500, 100_000),
        move |r, st| {
            let Some((start, moves)) = rep_moves(r).map(root_only) else { return Ok(()) };
            let Ok(case) = make_case(&start, &moves) else { return Ok(()) };
            if case.root.legal_moves().is_empty() {
                st.label("terminal_root_skipped");
                return Ok(());
            }
            st.sample(|| case_json(&start, &moves));
            c11_case(&case, kmax, st)
        },
        move |r| {
            let mut v = match rep_moves(r).map(root_only) {
                Some((s, m)) => case_json(&s, &m),
                None => json!({"fen": null}),
            };
            v["kmax"] = json!(kmax);
            v
        },
    );
}
pub fn replay_c11(case: &Value) -> CaseResult {
    let (start, moves) = parse_game_case(case)?;
    let kmax = case.get("kmax").and_then(|x| x.as_u64()).unwrap_or(4000);
    let c = make_case(&start, &moves)?;
    if c.root.legal_moves().is_empty() {
        return Ok(());
    }
    c11_case_opt(&c, kmax, case.get("with_history").is_none(), &mut Stats::new())
}

// ---------------------------------------------------------------------------------------------
// C10

/// counts after `position`: every position of the game has exactly its multiplicity, nothing else
pub fn c10_counts(start: &Pos, moves: &[Move], st: &mut Stats) -> CaseResult {
    st.eval();
    let z = hasher();
    let text: Vec<String> = moves.iter().map(mv_name).collect();
    let use_startpos = *start == Pos::startpos() && moves.len() % 2 == 0;
    // some earlier game first, through the same table, exactly as the UCI loop does it
    let (_, table) = play_out(&position_command(start, &text, use_startpos))?;
    // the engine's own key for every position of the game, from its own incremental replay
    let mut b = board_of(start)?;
    let mut p = start.clone();
    let mut want: HashMap<u64, (u64, Pos)> = HashMap::new();
    want.entry(b.zobrist_key).or_insert((0, p.clone())).0 += 1;
    let mut by_pos: HashMap<Pos, u64> = HashMap::new();
    *by_pos.entry(p.clone()).or_insert(0) += 1;
    for (i, m) in moves.iter().enumerate() {
        catch(|| verif_make_move(&mut b, &text[i], z))?;
        p = p.apply(m);
        if to_pos(&b).ok().as_ref() != Some(&p) {
            st.label("replay_diverged_skip");
            return Ok(());
        }
        want.entry(b.zobrist_key).or_insert((0, p.clone())).0 += 1;
        *by_pos.entry(p.clone()).or_insert(0) += 1;
    }
    // position identity must be what the key distinguishes (otherwise C05's subject)
    if want.len() != by_pos.len() {
        st.label("key_identity_differs_skip");
        return Ok(());
    }
    for (k, (n, pos)) in &want {
        let got = *table.table.get(k).unwrap_or(&0) as u64;
        if got != *n {
            return Err(format!("after `position {} moves {}` the repetition record holds {} for the position '{}' which occurred {} times in the game", if use_startpos { "startpos".into() } else { format!("fen {}", start.fen()) }, text.join(" "), got, pos.fen(), n));
        }
    }
    let total: u64 = table.table.values().map(|&v| v as u64).sum();
    if total != moves.len() as u64 + 1 {
        return Err(format!("after `position` with {} moves from '{}' the repetition record holds {} occurrences in total, expected {}", moves.len(), start.fen(), total, moves.len() + 1));
    }
    let maxmult = by_pos.values().cloned().max().unwrap_or(1);
    if maxmult >= 2 {
        st.nontrivial(fp(&(start, moves)));
        st.label(&format!("max_multiplicity_{}", maxmult.min(6)));
    }
    if by_pos.get(start).cloned().unwrap_or(0) >= 2 {
        st.label("start_position_recurs");
    }
    Ok(())
}

/// search part: when the side to move has a move into a position that already occurred at least
/// twice, the final score of every completed depth is >= 0
pub fn c10_search(case: &SearchCase, st: &mut Stats) -> CaseResult {
    c10_search_depth(case, 4, st)
}
pub fn c10_search_depth(case: &SearchCase, depths: u32, st: &mut Stats) -> CaseResult {
    st.eval();
    // does such a move exist? (position identity by the engine's own keys of its own successors)
    let succ = gen_all(&case.board, hasher());
    let best_count = succ.iter().map(|s| *case.table.table.get(&s.zobrist_key).unwrap_or(&0)).max().unwrap_or(0);
    if best_count < 2 {
        st.label("no_move_into_twice_seen_position");
        return Ok(());
    }
    st.label(&format!("target_count_{}", best_count.min(6)));
    let Some((lasts, _, run)) = completed_depths(case, depths, 400_000)? else {
        st.unjudged += 1;
        return Ok(());
    };
    let at = || format!("'{}' after {:?}", case.start.fen(), case.moves.iter().map(mv_name).collect::<Vec<_>>());
    for (d, i) in lasts.iter().enumerate() {
        let ok = match i.score {
            Score::Cp(x) => x >= 0,
            Score::Mate(n) => n > 0,
        };
        if !ok {
            return Err(format!("the side to move can repeat a position that occurred {} times already (a draw), yet the final score of depth {} is {:?} at {}: {:?}", best_count, d + 1, i.score, at(), i.sans_time));
        }
    }
    let before: HashMap<u64, u8> = case.table.table.iter().filter(|(_, v)| **v != 0).map(|(k, v)| (*k, *v)).collect();
    if run.table_after != before {
        return Err(format!("the repetition record is not left as given after the search at {}", at()));
    }
    let lost = get_evaluation(&case.board) < -150;
    if lost {
        st.label("side_to_move_materially_lost");
        st.nontrivial(fp(&(&case.start, &case.moves)));
    }
    Ok(())
}

pub fn run_c10(ctx: &mut Ctx) {
    let t = ctx.tier;
    ctx.max_shrink_iters = 300;
    let rep_heavy = || (prop_oneof![3 => endgame_walk_strategy(40), 2 => walk_strategy(60), 1 => Just(WalkRecipe { start: Start::Corpus(0), choices: vec![] })], prop_oneof![1 => Just(0u8), 3 => 1u8..4, 2 => 3u8..26], any::<u16>(), any::<u16>(), 0u8..4).prop_map(|(walk, cycles, c1, c2, tail_cut)| RepRecipe { walk, cycles, c1, c2, tail_cut });
    run_prop(
        ctx,
        "repetition_counts_after_position",
        rep_heavy,
        t.pick(320_000, 8_000_000),
        |r, st| {
            let Some((start, moves)) = rep_moves(r) else { return Ok(()) };
            st.sample(|| case_json(&start, &moves));
            c10_counts(&start, &moves, st)
        },
        |r| {
            let mut v = rep_json(r);
            v["part"] = json!("counts");
            v
        },
    );
    let lost_side = || {
        // endgames with a material gap, both colours to move, two to six cycles
        (proptest::sample::select(vec![23usize, 24, 27, 30, 31, 32, 37, 33, 22, 25]).prop_map(Start::Corpus), proptest::collection::vec(any::<u16>(), 0..14), 2u8..7, any::<u16>(), any::<u16>(), 0u8..4)
            .prop_map(|(start, choices, cycles, c1, c2, tail_cut)| RepRecipe { walk: WalkRecipe { start, choices }, cycles, c1, c2, tail_cut })
    };
    run_prop(
        ctx,
        "draw_by_repetition_available_in_search",
        lost_side,
        t.pick(4_800, 200_000),
        |r, st| {
            let Some((start, moves)) = rep_moves(r) else { return Ok(()) };
            let Ok(case) = make_case(&start, &moves) else { return Ok(()) };
            if case.root.legal_moves().is_empty() {
                return Ok(());
            }
            st.sample(|| case_json(&start, &moves));
            c10_search(&case, st)
        },
        |r| {
            let mut v = rep_json(r);
            v["part"] = json!("search");
            v
        },
    );
    run_c10_pawn_rich(ctx);
}
fn run_c10_pawn_rich(ctx: &mut Ctx) {
    let t = ctx.tier;
    // the same oracle on positions with many pawns and pieces (middlegames and pawn endings): the
    // repeating move lands on all kinds of squares next to all kinds of neighbours
    run_prop(
        ctx,
        "draw_by_repetition_available_pawn_rich_positions",
        || (prop_oneof![3 => gamelike_walk_strategy(30), 1 => (proptest::sample::select(vec![26usize, 35, 36, 27, 44]).prop_map(Start::Corpus), proptest::collection::vec(any::<u16>(), 0..10)).prop_map(|(start, choices)| WalkRecipe { start, choices })], 2u8..5, any::<u16>(), any::<u16>(), 0u8..4).prop_map(|(walk, cycles, c1, c2, tail_cut)| RepRecipe { walk, cycles, c1, c2, tail_cut }),
        t.pick(1_600, 30_000),
        |r, st| {
            let Some((start, moves)) = rep_moves(r) else { return Ok(()) };
            let Ok(case) = make_case(&start, &moves) else { return Ok(()) };
            if case.root.legal_moves().is_empty() {
                return Ok(());
            }
            st.sample(|| case_json(&start, &moves));
            c10_search_depth(&case, 3, st)
        },
        |r| {
            let mut v = rep_json(r);
            v["part"] = json!("search3");
            v
        },
    );
}

pub fn replay_c10(case: &Value) -> CaseResult {
    let (start, moves) = parse_game_case(case)?;
    if case.get("part").and_then(|x| x.as_str()) == Some("counts") {
        return c10_counts(&start, &moves, &mut Stats::new());
    }
    let c = make_case(&start, &moves)?;
    if c.root.legal_moves().is_empty() {
        return Ok(());
    }
    if case.get("part").and_then(|x| x.as_str()) == Some("search3") {
        return c10_search_depth(&c, 3, &mut Stats::new());
    }
    c10_search(&c, &mut Stats::new())
}
