//! C06 (check detection) and C14 (static evaluation).
use crate::board::{BoardState, Piece, PieceColor, PieceKind, Point, Square};
use crate::bridge::*;
use crate::evaluation::get_evaluation;
use crate::gen::*;
use crate::move_generation::is_check;
use crate::oracle::*;
use crate::runner::*;
use proptest::prelude::*;
use serde_json::{json, Value};

// ---------------------------------------------------------------------------------------------
// C06

/// non-trivial by C06's rule: king on the rim, adjacent kings, a pawn diagonally adjacent to a
/// king, or a man standing between a king and an enemy slider aligned with it
fn c06_nontrivial(p: &Pos, st: &mut Stats) -> bool {
    let mut nt = false;
    let (Some(wk), Some(bk)) = (p.king_sq(Color::White), p.king_sq(Color::Black)) else { return false };
    for k in [wk, bk] {
        if file_of(k) == 0 || file_of(k) == 7 || rank_of(k) == 0 || rank_of(k) == 7 {
            st.label("king_on_rim");
            nt = true;
        }
    }
    if (file_of(wk) - file_of(bk)).abs() <= 1 && (rank_of(wk) - rank_of(bk)).abs() <= 1 {
        st.label("adjacent_kings");
        nt = true;
    }
    for (k, c) in [(wk, Color::White), (bk, Color::Black)] {
        for df in [-1i8, 1] {
            for dr in [-1i8, 1] {
                if let Some(s) = mk(file_of(k) + df, rank_of(k) + dr) {
                    if p.sq[s as usize] == Some((c.opp(), Kind::Pawn)) {
                        st.label(if p.man_attacks(s, (c.opp(), Kind::Pawn), k) { "pawn_diagonal_attacking" } else { "pawn_diagonal_behind_not_attacking" });
                        nt = true;
                    }
                }
            }
        }
        // blocked slider lines
        for s in 0..64u8 {
            if let Some((oc, kind)) = p.sq[s as usize] {
                if oc != c && matches!(kind, Kind::Bishop | Kind::Rook | Kind::Queen) {
                    let mut open = p.clone();
                    for t in 0..64 {
                        if t != s as usize && t != k as usize {
                            open.sq[t] = None;
                        }
                    }
                    if open.man_attacks(s, (oc, kind), k) && !p.man_attacks(s, (oc, kind), k) {
                        st.label("slider_line_blocked");
                        nt = true;
                    }
                }
            }
        }
    }
    if p.in_check(Color::White) || p.in_check(Color::Black) {
        st.label("some_king_attacked");
    }
    if p.in_check(Color::White) && p.in_check(Color::Black) {
        st.label("both_kings_attacked");
    }
    nt
}

pub fn c06_position(p: &Pos, st: &mut Stats) -> CaseResult {
    let b = BoardState::from_fen(&p.fen()).map_err(|e| format!("from_fen rejected '{}': {}", p.fen(), e))?;
    st.eval();
    for c in [Color::White, Color::Black] {
        let want = p.in_check(c);
        let got = catch(|| is_check(&b, ecol_of(c))).map_err(|e| format!("is_check panicked on '{}' for {:?}: {}", p.fen(), c, e))?;
        if got != want {
            let k = p.king_sq(c).unwrap();
            return Err(format!(
                "is_check({:?}) = {} on '{}' but under the rules the {:?} king on {} is {} (attackers: {:?})",
                c,
                got,
                p.fen(),
                c,
                sq_name(k),
                if want { "attacked" } else { "not attacked" },
                p.attackers(k, c.opp()).iter().map(|&s| sq_name(s)).collect::<Vec<_>>()
            ));
        }
    }
    if c06_nontrivial(p, st) {
        st.nontrivial(fp(&p.sq));
    }
    Ok(())
}

/// E4 three-man basis: both kings on every ordered pair of squares (adjacent ones included), one
/// further man of every kind and colour on every remaining square (pawns on all eight ranks)
pub const E4_SPACE: u64 = 64 * 64 * 64 * 10;
pub fn e4_decode(i: u64) -> Option<Pos> {
    let mut i = i;
    let km = (i % 10) as usize;
    i /= 10;
    let xs = (i % 64) as usize;
    i /= 64;
    let bk = (i % 64) as usize;
    i /= 64;
    let wk = (i % 64) as usize;
    if wk == bk || xs == wk || xs == bk {
        return None;
    }
    let kind = [Kind::Pawn, Kind::Knight, Kind::Bishop, Kind::Rook, Kind::Queen][km % 5];
    let col = if km < 5 { Color::White } else { Color::Black };
    // pawns on the first and last rank included: "every placement", legal or not
    let mut p = Pos::empty();
    p.sq[wk] = Some((Color::White, Kind::King));
    p.sq[bk] = Some((Color::Black, Kind::King));
    p.sq[xs] = Some((col, kind));
    Some(p)
}

/// four-man family (one attacker and one potential blocker), strided
pub const E4B_SPACE: u64 = 64 * 64 * 64 * 64 * 10 * 10;
pub fn e4b_decode(i: u64) -> Option<Pos> {
    let mut i = i;
    let m2 = (i % 10) as usize;
    i /= 10;
    let m1 = (i % 10) as usize;
    i /= 10;
    let s2 = (i % 64) as usize;
    i /= 64;
    let s1 = (i % 64) as usize;
    i /= 64;
    let bk = (i % 64) as usize;
    i /= 64;
    let wk = (i % 64) as usize;
    let mut used = vec![wk];
    for s in [bk, s1, s2] {
        if used.contains(&s) {
            return None;
        }
        used.push(s);
    }
    let mut p = Pos::empty();
    p.sq[wk] = Some((Color::White, Kind::King));
    p.sq[bk] = Some((Color::Black, Kind::King));
    for (m, s) in [(m1, s1), (m2, s2)] {
        let kind = [Kind::Pawn, Kind::Knight, Kind::Bishop, Kind::Rook, Kind::Queen][m % 5];
        if kind == Kind::Pawn && (s / 8 == 0 || s / 8 == 7) {
            return None;
        }
        p.sq[s] = Some((if m < 5 { Color::White } else { Color::Black }, kind));
    }
    Some(p)
}

/// Four-man family on a fast path: the board is a copy of an empty `from_fen` template with the
/// squares and the two cached king squares written directly (sampled cases are compared with the
/// `from_fen` board of the same FEN). Quick: a stride of the space; thorough: the COMPLETE space
/// (both kings on every ordered pair x two further men of every kind and colour on every pair of
/// squares; 1.68e9 indices), which exhausts "one attacker, one potential blocker" geometry.
fn e4b_fast(ctx: &mut Ctx) {
    let exhaustive = ctx.tier == Tier::Thorough;
    let family = if exhaustive { "E4b_four_man_exhaustive" } else { "E4b_four_man_strided" };
    if family_filtered_out(family) {
        return;
    }
    let stride: u64 = if exhaustive { 1 } else { 13 };
    let offset = if exhaustive { 0 } else { ctx.seed % stride };
    let total = E4B_SPACE / stride;
    let workers = ctx.workers.max(1) as u64;
    let template = BoardState::from_fen("8/8/8/8/8/8/8/8 w - - 0 1").expect("empty board FEN");
    let results: std::sync::Mutex<(Stats, Vec<(u64, String)>)> = std::sync::Mutex::new((Stats::new(), vec![]));
    std::thread::scope(|sc| {
        for w in 0..workers {
            let template = &template;
            let results = &results;
            sc.spawn(move || {
                let mut st = Stats::new();
                let mut fails: Vec<(u64, String)> = vec![];
                let (mut n_eval, mut n_nt, mut n_rim, mut n_adj, mut n_pawn, mut n_block, mut n_chk, mut n_cmp) = (0u64, 0u64, 0u64, 0u64, 0u64, 0u64, 0u64, 0u64);
                let mut j = w;
                while j < total {
                    let i = j * stride + offset;
                    j += workers;
                    let Some(p) = e4b_decode(i) else { continue };
                    n_eval += 1;
                    let mut b = template.clone();
                    let (mut wk, mut bk) = (0u8, 0u8);
                    for s in 0..64u8 {
                        if let Some((c, k)) = p.sq[s as usize] {
                            let pt = sq2pt(s);
                            b.board[pt.0][pt.1] = Square::Full(Piece { color: ecol_of(c), kind: ekind_of(k) });
                            if k == Kind::King {
                                if c == Color::White {
                                    b.white_king_location = pt;
                                    wk = s;
                                } else {
                                    b.black_king_location = pt;
                                    bk = s;
                                }
                            }
                        }
                    }
                    if i % 1_000_003 == 0 {
                        // the fast board is the board the public loader builds
                        n_cmp += 1;
                        let fen_text = p.fen();
                        let f = BoardState::from_fen(&fen_text);
                        match f {
                            Ok(f) if f.board == b.board && f.white_king_location == b.white_king_location && f.black_king_location == b.black_king_location => {}
                            _ => {
                                eprintln!("HARNESS ERROR: fast-path board differs from from_fen at {}", p.fen());
                                std::process::exit(2);
                            }
                        }
                        if st.samples.len() < 2 {
                            st.sample(|| json!({"fen": p.fen()}));
                        }
                    }
                    let mut bad = None;
                    for c in [Color::White, Color::Black] {
                        let want = p.in_check(c);
                        let got = match catch(|| is_check(&b, ecol_of(c))) {
                            Ok(g) => g,
                            Err(e) => {
                                bad = Some(format!("is_check panicked on '{}' for {:?}: {}", p.fen(), c, e));
                                break;
                            }
                        };
                        if want {
                            n_chk += 1;
                        }
                        if got != want {
                            bad = Some(format!("is_check({:?}) = {} on '{}' but under the rules that king is {}", c, got, p.fen(), if want { "attacked" } else { "not attacked" }));
                            break;
                        }
                    }
                    if let Some(m) = bad {
                        if fails.len() < 3 {
                            fails.push((i, m));
                        }
                    }
                    // non-trivial by C06's rule, computed cheaply
                    let rim = |s: u8| file_of(s) == 0 || file_of(s) == 7 || rank_of(s) == 0 || rank_of(s) == 7;
                    let mut nt = false;
                    if rim(wk) || rim(bk) {
                        n_rim += 1;
                        nt = true;
                    }
                    if (file_of(wk) - file_of(bk)).abs() <= 1 && (rank_of(wk) - rank_of(bk)).abs() <= 1 {
                        n_adj += 1;
                        nt = true;
                    }
                    for s in 0..64u8 {
                        if let Some((c, k)) = p.sq[s as usize] {
                            let ek = if c == Color::White { bk } else { wk };
                            if k == Kind::Pawn && (file_of(s) - file_of(ek)).abs() == 1 && (rank_of(s) - rank_of(ek)).abs() == 1 {
                                n_pawn += 1;
                                nt = true;
                            }
                            if matches!(k, Kind::Bishop | Kind::Rook | Kind::Queen) {
                                let (df, dr) = ((file_of(ek) - file_of(s)).abs(), (rank_of(ek) - rank_of(s)).abs());
                                let aligned = match k {
                                    Kind::Rook => df == 0 || dr == 0,
                                    Kind::Bishop => df == dr,
                                    _ => df == 0 || dr == 0 || df == dr,
                                };
                                if aligned && !p.man_attacks(s, (c, k), ek) {
                                    n_block += 1;
                                    nt = true;
                                }
                            }
                        }
                    }
                    if nt {
                        n_nt += 1;
                    }
                }
                st.evals(n_eval);
                st.nontrivial_by_construction = n_nt;
                st.label_n("king_on_rim", n_rim);
                st.label_n("adjacent_kings", n_adj);
                st.label_n("pawn_diagonally_adjacent_to_enemy_king", n_pawn);
                st.label_n("slider_line_blocked", n_block);
                st.label_n("some_king_attacked", n_chk);
                st.label_n("fast_board_compared_with_from_fen", n_cmp);
                let mut g = results.lock().unwrap();
                g.0.merge(st);
                g.1.extend(fails);
            });
        }
    });
    let (st, mut fails) = results.into_inner().unwrap();
    fails.sort();
    for (i, m) in fails.into_iter().take(5) {
        ctx.violation(family, json!({"fen": e4b_decode(i).map(|p| p.fen())}), m);
    }
    if exhaustive {
        ctx.exhaustive_parts.push(format!("{} ({} indices, complete)", family, E4B_SPACE));
    }
    ctx.family_done(family, st, json!({"driver": "enumeration (fast path)", "exhaustive": exhaustive, "index_space": E4B_SPACE, "stride": stride}));
}

/// unconstrained placement: kings anywhere (adjacent allowed), any men, whoever is to move
#[derive(Debug, Clone)]
pub struct RawRecipe {
    pub wk: u8,
    pub bk: u8,
    pub men: Vec<(u8, bool, u8)>,
    pub wtm: bool,
    pub pawns_anywhere: bool,
}
pub fn build_raw(r: &RawRecipe) -> Option<Pos> {
    if r.wk == r.bk {
        return None;
    }
    let mut p = Pos::empty();
    p.sq[r.wk as usize] = Some((Color::White, Kind::King));
    p.sq[r.bk as usize] = Some((Color::Black, Kind::King));
    for &(k, w, s) in &r.men {
        if p.sq[s as usize].is_some() {
            continue;
        }
        let kind = [Kind::Pawn, Kind::Knight, Kind::Bishop, Kind::Rook, Kind::Queen][k as usize % 5];
        if kind == Kind::Pawn && !r.pawns_anywhere && (s / 8 == 0 || s / 8 == 7) {
            continue;
        }
        p.sq[s as usize] = Some((if w { Color::White } else { Color::Black }, kind));
    }
    p.stm = if r.wtm { Color::White } else { Color::Black };
    Some(p)
}
fn raw_strategy_inner(max_men: usize) -> impl Strategy<Value = RawRecipe> {
    raw_strategy(max_men)
}
fn c06_successors_if_legal(p: &Pos, st: &mut Stats) -> CaseResult {
    if p.is_legal_position() {
        c06_successors(p, st)
    } else {
        Ok(())
    }
}
fn raw_strategy(max_men: usize) -> impl Strategy<Value = RawRecipe> {
    (0u8..64, 0u8..64, proptest::collection::vec((0u8..5, any::<bool>(), 0u8..64), 0..max_men), any::<bool>(), prop_oneof![9 => Just(false), 1 => Just(true)])
        .prop_map(|(wk, bk, men, wtm, pawns_anywhere)| RawRecipe { wk, bk, men, wtm, pawns_anywhere })
}
/// kings close together / near the rim, a few men around them
fn raw_close_strategy() -> impl Strategy<Value = RawRecipe> {
    (0u8..64, 0u8..25, proptest::collection::vec((0u8..5, any::<bool>(), 0u8..64, any::<bool>(), 0u8..25), 0..6), any::<bool>()).prop_map(|(wk, off, men, wtm)| {
        let near = |s: u8, o: u8| -> u8 {
            let f = (s % 8) as i8 + (o % 5) as i8 - 2;
            let r = (s / 8) as i8 + (o / 5) as i8 - 2;
            mk(f.clamp(0, 7), r.clamp(0, 7)).unwrap()
        };
        let bk = near(wk, off);
        let men = men.into_iter().map(|(k, w, s, close, o)| (k, w, if close { near(if w { bk } else { wk }, o) } else { s })).collect();
        RawRecipe { wk, bk, men, wtm, pawns_anywhere: false }
    })
}

/// see the family `half_made_special_moves_asked_after_generation`
pub fn c06_half_made(p: &Pos, st: &mut Stats) -> CaseResult {
    let b = board_of(&p)?;
    let z = crate::props::movegen::hasher();
    let _ = catch(|| (gen_all(&b, z), gen_caps(&b, z))).map_err(|e| format!("generation panicked on '{}': {}", p.fen(), e))?;
    st.eval();
    let mut asked = 0;
    for m in p.pseudo() {
        let class = p.classify(&m);
        let mut q = p.clone();
        let mover = p.sq[m.from as usize];
        match class {
            MoveClass::EnPassant => {
                // capturer on the target, victim still there
                q.sq[m.to as usize] = mover;
                q.sq[m.from as usize] = None;
            }
            MoveClass::Castle => {
                // king moved, rook still at home
                q.sq[m.to as usize] = mover;
                q.sq[m.from as usize] = None;
            }
            MoveClass::Promo | MoveClass::PromoCapture => {
                // the pawn itself on the last rank
                q.sq[m.to as usize] = mover;
                q.sq[m.from as usize] = None;
            }
            _ => continue,
        }
        q.ep = None;
        q.wk = false;
        q.wq = false;
        q.bk = false;
        q.bq = false;
        for stm in [p.stm, p.stm.opp()] {
            q.stm = stm;
            // from_fen accepts these boards (it does not judge legality); skip if it does not
            let Ok(qb) = BoardState::from_fen(&q.fen()) else { continue };
            for c in [Color::White, Color::Black] {
                let Some(k) = q.king_sq(c) else { continue };
                let want = q.attacked(k, c.opp());
                let got = catch(|| is_check(&qb, ecol_of(c))).map_err(|e| format!("is_check panicked on '{}': {}", q.fen(), e))?;
                asked += 1;
                if got != want {
                    return Err(format!("after generating the moves of '{}' on this thread, is_check({:?}) = {} on the neighbouring board '{}' (the half-made move {}), but under the rules that king is {}", p.fen(), c, got, q.fen(), mv_name(&m), if want { "attacked" } else { "not attacked" }));
                }
            }
        }
    }
    if asked > 0 {
        st.nontrivial(fp(&p.fen()));
        st.label("positions_with_half_made_special_moves");
    }
    Ok(())
}

pub fn run_c06(ctx: &mut Ctx) {
    let t = ctx.tier;
    run_enum(
        ctx,
        "E4_three_man_basis_exhaustive",
        E4_SPACE,
        true,
        |i, st| {
            let Some(p) = e4_decode(i) else { return Ok(()) };
            if i % 200_003 == 0 {
                st.sample(|| json!({"fen": p.fen()}));
            }
            c06_position(&p, st)
        },
        |i| json!({"fen": e4_decode(i).map(|p| p.fen())}),
    );
    e4b_fast(ctx);
    let body = |r: &RawRecipe, st: &mut Stats| {
        let Some(p) = build_raw(r) else { return Ok(()) };
        if r.pawns_anywhere {
            st.label("pawns_allowed_on_rim_ranks");
        }
        st.sample(|| json!({"fen": p.fen()}));
        c06_position(&p, st)
    };
    let tc = |r: &RawRecipe| json!({"fen": build_raw(r).map(|p| p.fen())});
    run_prop(ctx, "raw_placements_sparse", || raw_strategy(8), t.pick(1_500_000, 12_000_000), body, tc);
    run_prop(ctx, "raw_placements_dense", || raw_strategy(31), t.pick(1_000_000, 8_000_000), body, tc);
    run_prop(ctx, "raw_placements_kings_close", raw_close_strategy, t.pick(1_500_000, 12_000_000), body, tc);
}

/// is_check on boards PRODUCED BY THE GENERATOR (they carry last_move, promotion piece, ordering
/// value - none of which may influence the answer): every successor of the position, both colours.
pub fn c06_successors(p: &Pos, st: &mut Stats) -> CaseResult {
    let b = board_of(p)?;
    let z = crate::props::movegen::hasher();
    for (mode, succ) in [("full", gen_all(&b, z)), ("capture-only", gen_caps(&b, z))] {
        for s in &succ {
            let Ok(sp) = to_pos(s) else { continue };
            if sp.king_sq(Color::White).is_none() || sp.king_sq(Color::Black).is_none() {
                continue;
            }
            st.eval();
            for c in [Color::White, Color::Black] {
                let want = sp.in_check(c);
                let got = catch(|| is_check(s, ecol_of(c))).map_err(|e| format!("is_check panicked on the {} successor {} of '{}': {}", mode, desc_text(s), p.fen(), e))?;
                if got != want {
                    return Err(format!("is_check({:?}) = {} on the {}-generation successor {} of '{}' (position '{}') but under the rules that king is {}", c, got, mode, desc_text(s), p.fen(), sp.fen(), if want { "attacked" } else { "not attacked" }));
                }
            }
            if let Ok(d) = desc(s) {
                match p.classify(&d) {
                    MoveClass::EnPassant => {
                        st.label("successor_by_en_passant");
                        if sp.in_check(sp.stm) {
                            st.label("en_passant_successor_gives_check");
                            st.nontrivial(fp(&(&p.sq, d)));
                        }
                    }
                    MoveClass::Castle => st.label("successor_by_castling"),
                    MoveClass::Promo | MoveClass::PromoCapture => st.label("successor_by_promotion"),
                    _ => {}
                }
                if sp.in_check(sp.stm) && !sp.man_attacks(d.to, sp.sq[d.to as usize].unwrap_or((Color::White, Kind::Pawn)), sp.king_sq(sp.stm).unwrap()) {
                    st.label("successor_with_discovered_check");
                    st.nontrivial(fp(&(&p.sq, d, 1)));
                }
            }
        }
    }
    Ok(())
}
/// en passant family with the slider on the CAPTURING side (discovered checks through either
/// vacated square): index space as movegen::E2 with the slider's colour flipped
fn e2b_decode(i: u64) -> Option<Pos> {
    let mut i = i;
    let sk = [Kind::Rook, Kind::Bishop, Kind::Queen][(i % 3) as usize];
    i /= 3;
    let ss = (i % 64) as usize;
    i /= 64;
    let k_them = (i % 64) as usize;
    i /= 64;
    let k_us = (i % 64) as usize;
    i /= 64;
    let dir: i8 = if i % 2 == 0 { -1 } else { 1 };
    i /= 2;
    let file = (i % 8) as i8;
    i /= 8;
    let us = if i % 2 == 0 { Color::White } else { Color::Black };
    let r5 = if us == Color::White { 4 } else { 3 };
    let r6 = if us == Color::White { 5 } else { 2 };
    let ours = mk(file, r5)?;
    let theirs = mk(file + dir, r5)?;
    let target = mk(file + dir, r6)?;
    let mut p = Pos::empty();
    p.sq[ours as usize] = Some((us, Kind::Pawn));
    p.sq[theirs as usize] = Some((us.opp(), Kind::Pawn));
    for s in [k_us, k_them, ss] {
        if p.sq[s].is_some() || s == target as usize {
            return None;
        }
    }
    if k_us == k_them || k_us == ss || k_them == ss {
        return None;
    }
    p.sq[k_us] = Some((us, Kind::King));
    p.sq[k_them] = Some((us.opp(), Kind::King));
    p.sq[ss] = Some((us, sk));
    p.stm = us;
    p.ep = Some(target);
    if p.is_legal_position() {
        Some(p)
    } else {
        None
    }
}

pub fn run_c06_generated(ctx: &mut Ctx) {
    let t = ctx.tier;
    // is_check after a search has run on the same thread: nothing a search leaves behind (caches,
    // hints, thread-local state) may influence the answer for an unrelated placement
    run_prop(
        ctx,
        "placements_judged_after_a_search_on_the_same_thread",
        || (proptest::sample::select(vec![22usize, 26, 28, 29, 35, 14, 23, 24, 30, 33]), proptest::collection::vec(any::<u16>(), 0..6), 50u64..600, proptest::collection::vec(raw_strategy_inner(8), 1..6)),
        t.pick(1_500, 30_000),
        |(ci, choices, expiry, placements), st| {
            // a short search from a small ending (pawn endings included: promotions appear in the tree)
            let r = WalkRecipe { start: Start::Corpus(*ci), choices: choices.clone() };
            let Some((start, moves)) = play_walk(&r) else { return Ok(()) };
            if let Ok(case) = crate::props::search::make_case(&start, &moves) {
                if !case.root.legal_moves().is_empty() {
                    let _ = crate::props::search::run_search(&case.board, &case.table, *expiry);
                    st.label("searches_run_first");
                }
            }
            for rr in placements {
                if let Some(p) = build_raw(rr) {
                    c06_position(&p, st)?;
                    c06_successors_if_legal(&p, st)?;
                }
            }
            Ok(())
        },
        |(ci, choices, expiry, placements)| json!({"after_search": {"corpus": ci, "choices": choices, "expiry": expiry}, "fens": placements.iter().filter_map(build_raw).map(|p| p.fen()).collect::<Vec<_>>()}),
    );
    // is_check on boards that are NEIGHBOURS of a position whose moves were just generated on the
    // same thread: the half-made special moves (en passant capturer on the target square with the
    // victim still standing; king already castled with the rook still at home; pawn on the last rank
    // before it is replaced). A generator that consults is_check while a move is half made, and
    // anything that remembers answers by key, can leave a wrong answer behind for exactly these boards.
    run_prop(
        ctx,
        "half_made_special_moves_asked_after_generation",
        || prop_oneof![3 => placement_ep(), 2 => placement_castle(), 2 => placement_promo(), 1 => placement_general()],
        t.pick(40_000, 600_000),
        |r, st| {
            let Some(p) = build_placement(r) else { return Ok(()) };
            c06_half_made(&p, st)
        },
        |r| match build_placement(r) {
            Some(p) => json!({"half_made": true, "fen": p.fen()}),
            None => json!({"fen": null}),
        },
    );
    run_prop(
        ctx,
        "generator_produced_boards_on_walks",
        move || walk_strategy(t.pick(60, 120)),
        t.pick(6_000, 100_000),
        |r, st| {
            let Some((start, moves)) = play_walk(r) else { return Ok(()) };
            st.sample(|| json!({"successors_of": start.fen(), "moves": moves.iter().map(mv_name).collect::<Vec<_>>()}));
            let mut p = start.clone();
            c06_successors(&p, st)?;
            // the third producer of boards: the UCI text-move applier
            let z = crate::props::movegen::hasher();
            let mut txt = board_of(&start)?;
            let mut txt_alive = true;
            for m in &moves {
                p = p.apply(m);
                c06_successors(&p, st)?;
                if txt_alive {
                    catch(|| crate::uci::verif_make_move(&mut txt, &mv_name(m), z))?;
                    // judged on the placement the applier produced (a wrong placement is C04's subject)
                    if to_pos(&txt).ok().as_ref().map(|x| &x.sq) == Some(&p.sq) {
                        st.eval();
                        for c in [Color::White, Color::Black] {
                            let want = p.in_check(c);
                            let got = catch(|| is_check(&txt, ecol_of(c))).map_err(|e| format!("is_check panicked: {}", e))?;
                            if got != want {
                                return Err(format!("is_check({:?}) = {} on the board the text-move applier holds after {:?} from '{}' (position '{}') but under the rules that king is {}", c, got, moves.iter().map(mv_name).collect::<Vec<_>>(), start.fen(), p.fen(), if want { "attacked" } else { "not attacked" }));
                            }
                        }
                        if p.classify(m) == MoveClass::Castle || p.sq[m.to as usize].map(|x| x.1) == Some(Kind::King) {
                            st.label("text_applier_board_after_a_king_move_or_castling");
                        }
                    } else {
                        txt_alive = false;
                    }
                }
            }
            Ok(())
        },
        |r| match play_walk(r) {
            Some((s, m)) => json!({"successors_of": s.fen(), "moves": m.iter().map(mv_name).collect::<Vec<_>>()}),
            None => json!({"fen": null}),
        },
    );
    let body = |r: &PlacementRecipe, st: &mut Stats| {
        let Some(p) = build_placement(r) else { return Ok(()) };
        st.sample(|| json!({"successors_of": p.fen(), "moves": []}));
        c06_successors(&p, st)
    };
    let tc = |r: &PlacementRecipe| json!({"successors_of": build_placement(r).map(|p| p.fen()), "moves": []});
    run_prop(ctx, "generator_produced_boards_ep_placements", placement_ep, t.pick(100_000, 2_000_000), body, tc);
    run_prop(ctx, "generator_produced_boards_promo_placements", placement_promo, t.pick(40_000, 800_000), body, tc);
    let stride: u64 = t.pick(29, 1);
    let offset = if stride > 1 { ctx.seed % stride } else { 0 };
    let space = crate::props::movegen::E2_SPACE;
    run_enum(
        ctx,
        if stride == 1 { "E2b_en_passant_with_own_slider_exhaustive" } else { "E2b_en_passant_with_own_slider_strided" },
        space / stride,
        stride == 1,
        move |j, st| {
            let Some(p) = e2b_decode(j * stride + offset) else { return Ok(()) };
            c06_successors(&p, st)
        },
        move |j| json!({"successors_of": e2b_decode(j * stride + offset).map(|p| p.fen()), "moves": []}),
    );
}

pub fn replay_c06(case: &Value) -> CaseResult {
    if let Some(a) = case.get("after_search") {
        let ci = a.get("corpus").and_then(|x| x.as_u64()).unwrap_or(22) as usize;
        let choices: Vec<u16> = a.get("choices").and_then(|x| x.as_array()).map(|v| v.iter().filter_map(|x| x.as_u64()).map(|x| x as u16).collect()).unwrap_or_default();
        let expiry = a.get("expiry").and_then(|x| x.as_u64()).unwrap_or(300);
        if let Some((start, moves)) = play_walk(&WalkRecipe { start: Start::Corpus(ci), choices }) {
            if let Ok(c) = crate::props::search::make_case(&start, &moves) {
                if !c.root.legal_moves().is_empty() {
                    let _ = crate::props::search::run_search(&c.board, &c.table, expiry);
                }
            }
        }
        let mut st = Stats::new();
        for f in case.get("fens").and_then(|x| x.as_array()).cloned().unwrap_or_default() {
            if let Some(p) = f.as_str().and_then(Pos::parse_fen) {
                c06_position(&p, &mut st)?;
                c06_successors_if_legal(&p, &mut st)?;
            }
        }
        return Ok(());
    }
    if let Some(f) = case.get("successors_of").and_then(|x| x.as_str()) {
        let mut p = Pos::parse_fen(f).ok_or("fen does not parse")?;
        let mut st = Stats::new();
        c06_successors(&p, &mut st)?;
        if let Some(arr) = case.get("moves").and_then(|x| x.as_array()) {
            for m in arr {
                let mv = parse_mv(m.as_str().unwrap_or("")).ok_or("bad move")?;
                p = p.apply(&mv);
                c06_successors(&p, &mut st)?;
            }
        }
        return Ok(());
    }
    let fen = case.get("fen").and_then(|x| x.as_str()).ok_or("no fen in replay case")?;
    let p = Pos::parse_fen(fen).ok_or("fen does not parse")?;
    if case.get("half_made").is_some() {
        return c06_half_made(&p, &mut Stats::new());
    }
    c06_position(&p, &mut Stats::new())
}

// ---------------------------------------------------------------------------------------------
// C14

/// The range reserved for mate scores is observed, not assumed: the smallest score the engine's own
/// info printer (`send_search_info`, through the output hook) reports as `score mate` instead of
/// `score cp`. "Far below" = less than half of it (49992 on the pinned tree, where it is 100000-15).
pub fn mate_threshold() -> Result<i32, String> {
    static T: std::sync::OnceLock<Result<i32, String>> = std::sync::OnceLock::new();
    T.get_or_init(|| {
        let prints_mate = |x: i32| -> Result<bool, String> {
            crate::verif_hooks::arm_sink();
            let si = crate::search::Search::new_search();
            let r = catch(|| crate::engine::verif_send_search_info(&si, 1, x, std::time::Instant::now()));
            let lines = crate::verif_hooks::take_sink();
            r.map_err(|e| format!("HARNESS: send_search_info panicked on score {}: {}", x, e))?;
            let l = lines.into_iter().map(|x| x.1).find(|l| l.starts_with("info ")).ok_or("HARNESS: send_search_info printed no info line")?;
            Ok(l.contains("score mate"))
        };
        if prints_mate(0)? {
            return Err("HARNESS: score 0 is printed as a mate".into());
        }
        let (mut lo, mut hi) = (0i32, 9_000_000i32);
        if !prints_mate(hi)? {
            return Err("HARNESS: no score up to 9000000 is printed as a mate".into());
        }
        while hi - lo > 1 {
            let mid = lo + (hi - lo) / 2;
            if prints_mate(mid)? {
                hi = mid
            } else {
                lo = mid
            }
        }
        Ok(hi)
    })
    .clone()
}

fn eval_of(p: &Pos) -> Result<(i32, BoardState), String> {
    let b = BoardState::from_fen(&p.fen()).map_err(|e| format!("from_fen rejected '{}': {}", p.fen(), e))?;
    let v = catch(|| get_evaluation(&b)).map_err(|e| format!("get_evaluation panicked on '{}': {}", p.fen(), e))?;
    Ok((v, b))
}

pub fn c14_position(p: &Pos, extra: u16, st: &mut Stats) -> CaseResult {
    st.eval();
    let (v, b) = eval_of(p)?;
    // colour-mirrored twin
    let m = p.mirror();
    let (vm, _) = eval_of(&m)?;
    if v != vm {
        return Err(format!("evaluation of '{}' is {} but its colour-mirrored twin '{}' evaluates to {}", p.fen(), v, m.fen(), vm));
    }
    // same placement, other side to move
    let mut o = p.clone();
    o.stm = p.stm.opp();
    o.ep = None;
    let (vo, _) = eval_of(&o)?;
    if vo != -v {
        return Err(format!("evaluation of '{}' is {} but with the other side to move it is {} (should be {})", p.fen(), v, vo, -v));
    }
    // nothing but placement and side to move matters
    let mut q = b.clone();
    q.white_king_side_castle = extra & 1 != 0;
    q.white_queen_side_castle = extra & 2 != 0;
    q.black_king_side_castle = extra & 4 != 0;
    q.black_queen_side_castle = extra & 8 != 0;
    q.pawn_double_move = if extra & 16 != 0 { Some(Point(2 + ((extra >> 5) % 8) as usize, 2 + ((extra >> 8) % 8) as usize)) } else { None };
    q.last_move = if extra & 32 != 0 { Some((Point(3, 4), Point(5, 4))) } else { None };
    q.pawn_promotion = if extra & 64 != 0 { Some(Piece { color: PieceColor::Black, kind: PieceKind::Knight }) } else { None };
    q.zobrist_key = (extra as u64).wrapping_mul(0x9E3779B97F4A7C15);
    q.order_heuristic = extra as i32 - 300;
    let vq = catch(|| get_evaluation(&q)).map_err(|e| format!("get_evaluation panicked: {}", e))?;
    if vq != v {
        return Err(format!("evaluation of '{}' changes from {} to {} when only castling rights / en passant target / last move / promotion field / key / ordering value change", p.fen(), v, vq));
    }
    // the same board with only the side-to-move flag flipped (what the null-move search does: the
    // key is NOT updated): still the negated number - the result may depend on nothing but placement
    // and side to move, in particular not on the key
    let mut f = b.clone();
    f.to_move = b.to_move.opposite();
    let vf = catch(|| get_evaluation(&f)).map_err(|e| format!("get_evaluation panicked: {}", e))?;
    let vb = catch(|| get_evaluation(&b)).map_err(|e| format!("get_evaluation panicked: {}", e))?;
    if vf != -v || vb != v {
        return Err(format!("evaluation of '{}' is {}; the same board with only the side-to-move flag flipped (key untouched, as in the null-move search) evaluates to {} (should be {}), and evaluating the original again gives {}", p.fen(), v, vf, -v, vb));
    }
    let t = mate_threshold()?;
    if v.abs() >= t / 2 {
        return Err(format!("evaluation of '{}' is {}, not far below the range reserved for mate scores (the engine prints scores from {} on as `score mate`; far below = under half of that)", p.fen(), v, t));
    }
    if *p != m {
        st.nontrivial(fp(&(&p.sq, p.stm)));
    }
    if p.sq.iter().filter(|x| matches!(x, Some((_, Kind::King)))).count() > 2 {
        st.label("placement_with_surplus_kings");
    }
    st.label(match v.abs() {
        0 => "eval_zero",
        1..=99 => "eval_below_100",
        100..=999 => "eval_100_999",
        1000..=4999 => "eval_1000_4999",
        _ => "eval_5000_plus",
    });
    Ok(())
}

/// E5: every piece of every colour on every square, alone with the two kings parked on fixed
/// squares, at every game-phase weight 0..=24 (phase is raised with knights of BOTH colours placed
/// symmetrically so they cancel in the score but not in the phase).
pub const E5_SPACE: u64 = 12 * 64 * 25;
pub fn e5_decode(i: u64) -> Option<Pos> {
    let mut i = i;
    let phase = (i % 25) as usize;
    i /= 25;
    let s = (i % 64) as usize;
    i /= 64;
    let pk = (i % 12) as usize;
    let kind = ALL_KINDS[pk % 6];
    let col = if pk < 6 { Color::White } else { Color::Black };
    if kind == Kind::Pawn && (s / 8 == 0 || s / 8 == 7) {
        return None;
    }
    let mut p = Pos::empty();
    if kind == Kind::King {
        p.sq[s] = Some((col, Kind::King));
        // the other king: far corner that is free
        let other = if s == 63 { 0 } else { 63 };
        p.sq[other] = Some((col.opp(), Kind::King));
    } else {
        // kings on a pair of free squares
        let mut free = (0..64usize).filter(|&x| x != s);
        let a = free.next().unwrap();
        let b = (0..64usize).rev().find(|&x| x != s).unwrap();
        p.sq[a] = Some((Color::White, Kind::King));
        p.sq[b] = Some((Color::Black, Kind::King));
        p.sq[s] = Some((col, kind));
    }
    // phase filler: pairs of knights (1 each) / queens (4 each) on free squares, mirrored so that the
    // filler is its own colour-mirror and contributes zero to the score difference
    let mut need = phase as i32 - match kind {
        Kind::Knight | Kind::Bishop => 1,
        Kind::Rook => 2,
        Kind::Queen => 4,
        _ => 0,
    };
    let mut f = 0i8;
    while need >= 2 && f < 8 {
        // a white knight on (f, r) and a black knight on (f, 7-r)
        let r = 2;
        let (a, b) = (mk(f, r).unwrap() as usize, mk(f, 7 - r).unwrap() as usize);
        if p.sq[a].is_none() && p.sq[b].is_none() {
            p.sq[a] = Some((Color::White, Kind::Knight));
            p.sq[b] = Some((Color::Black, Kind::Knight));
            need -= 2;
        }
        f += 1;
    }
    let mut f = 0i8;
    while need >= 2 && f < 8 {
        let r = 3;
        let (a, b) = (mk(f, r).unwrap() as usize, mk(f, 7 - r).unwrap() as usize);
        if p.sq[a].is_none() && p.sq[b].is_none() {
            p.sq[a] = Some((Color::White, Kind::Bishop));
            p.sq[b] = Some((Color::Black, Kind::Bishop));
            need -= 2;
        }
        f += 1;
    }
    if need == 1 {
        // odd remainder: a single extra knight (the mirror relation must still hold)
        if let Some(x) = (16..48usize).find(|&x| p.sq[x].is_none()) {
            p.sq[x] = Some((Color::White, Kind::Knight));
        }
    }
    Some(p)
}

#[derive(Debug, Clone)]
pub struct MaterialRecipe {
    pub wk: u8,
    pub bk: u8,
    /// (kind 0..5 = P N B R Q, white?, square)
    pub men: Vec<(u8, bool, u8)>,
    pub wtm: bool,
    pub extra: u16,
}
/// up to nine queens, ten rooks / bishops / knights and eight pawns a side, legal or not
pub fn build_material(r: &MaterialRecipe) -> Option<Pos> {
    if r.wk == r.bk {
        return None;
    }
    let mut p = Pos::empty();
    p.sq[r.wk as usize] = Some((Color::White, Kind::King));
    p.sq[r.bk as usize] = Some((Color::Black, Kind::King));
    let caps = [8usize, 10, 10, 10, 9];
    let mut cnt = [[0usize; 5]; 2];
    for &(k, w, s) in &r.men {
        let k = k as usize % 5;
        if p.sq[s as usize].is_some() || cnt[w as usize][k] >= caps[k] {
            continue;
        }
        if k == 0 && (s / 8 == 0 || s / 8 == 7) {
            continue;
        }
        cnt[w as usize][k] += 1;
        p.sq[s as usize] = Some((if w { Color::White } else { Color::Black }, [Kind::Pawn, Kind::Knight, Kind::Bishop, Kind::Rook, Kind::Queen][k]));
    }
    // one case in sixteen carries surplus kings ("any placement"): the evaluation's relations are
    // stated for placements, not only for legal ones
    if r.extra & 0xF000 == 0xF000 {
        for i in 0..(1 + (r.extra >> 8) % 3) as usize {
            let s = ((r.extra as usize).wrapping_mul(31).wrapping_add(i * 17)) % 64;
            if p.sq[s].is_none() {
                p.sq[s] = Some((if (r.extra >> (4 + i)) & 1 == 1 { Color::White } else { Color::Black }, Kind::King));
            }
        }
    }
    p.stm = if r.wtm { Color::White } else { Color::Black };
    Some(p)
}
fn material_strategy(max_men: usize, queen_heavy: bool) -> impl Strategy<Value = MaterialRecipe> {
    let kind = if queen_heavy { prop_oneof![1 => 0u8..4, 3 => Just(4u8)].boxed() } else { (0u8..5).boxed() };
    (0u8..64, 0u8..64, proptest::collection::vec((kind, any::<bool>(), 0u8..64), 0..max_men), any::<bool>(), any::<u16>()).prop_map(|(wk, bk, men, wtm, extra)| MaterialRecipe { wk, bk, men, wtm, extra })
}

pub fn run_c14(ctx: &mut Ctx) {
    let t = ctx.tier;
    run_enum(
        ctx,
        "E5_single_piece_basis_all_phases_exhaustive",
        E5_SPACE,
        true,
        |i, st| {
            let Some(p) = e5_decode(i) else { return Ok(()) };
            if i % 3001 == 0 {
                st.sample(|| json!({"fen": p.fen()}));
            }
            c14_position(&p, (i % 65536) as u16, st)
        },
        |i| json!({"fen": e5_decode(i).map(|p| p.fen()), "extra": i % 65536}),
    );
    let body = |r: &MaterialRecipe, st: &mut Stats| {
        let Some(p) = build_material(r) else { return Ok(()) };
        st.sample(|| json!({"fen": p.fen(), "extra": r.extra}));
        c14_position(&p, r.extra, st)
    };
    let tc = |r: &MaterialRecipe| json!({"fen": build_material(r).map(|p| p.fen()), "extra": r.extra});
    run_prop(ctx, "random_placements_sparse", || material_strategy(10, false), t.pick(1_500_000, 10_000_000), body, tc);
    run_prop(ctx, "random_placements_dense", || material_strategy(62, false), t.pick(1_000_000, 6_000_000), body, tc);
    run_prop(ctx, "random_placements_queen_heavy", || material_strategy(40, true), t.pick(500_000, 4_000_000), body, tc);
    // boards that came about by playing moves (generator chain and text applier), promotion-rich
    run_prop(
        ctx,
        "boards_produced_by_playing_moves",
        move || prop_oneof![2 => walk_strategy(t.pick(60, 120)), 3 => (prop_oneof![(17usize..22).prop_map(Start::Corpus), Just(Start::Corpus(3)), Just(Start::Corpus(4)), placement_promo().prop_map(Start::Placement)], proptest::collection::vec(any::<u16>(), 0..30)).prop_map(|(start, choices)| WalkRecipe { start, choices })],
        t.pick(30_000, 400_000),
        |r, st| {
            let Some((start, moves)) = play_walk(r) else { return Ok(()) };
            st.sample(|| json!({"fen": start.fen(), "moves": moves.iter().map(mv_name).collect::<Vec<_>>()}));
            c14_game(&start, &moves, st)
        },
        walk_json,
    );
}

/// boards PRODUCED by the generator and by the text applier along a game must evaluate exactly like
/// the same placement loaded from FEN (the result depends on placement and side to move only, not on
/// how the board came about or on anything carried along from earlier moves)
pub fn c14_game(start: &Pos, moves: &[Move], st: &mut Stats) -> CaseResult {
    let z = crate::props::movegen::hasher();
    let mut p = start.clone();
    let mut gen_b = board_of(start)?;
    let mut txt_b = gen_b.clone();
    let mut gen_alive = true;
    let mut phase_excess = false;
    for m in moves {
        let np = p.apply(m);
        if gen_alive {
            match gen_all(&gen_b, z).into_iter().find(|s| desc(s).ok() == Some(*m)) {
                Some(s) if to_pos(&s).ok().as_ref() == Some(&np) => gen_b = s,
                _ => gen_alive = false,
            }
        }
        catch(|| crate::uci::verif_make_move(&mut txt_b, &mv_name(m), z))?;
        if to_pos(&txt_b).ok().as_ref() != Some(&np) {
            return Ok(()); // C04's subject
        }
        p = np;
        st.eval();
        let (want, _) = eval_of(&p)?;
        let phase: i32 = p.sq.iter().flatten().map(|(_, k)| match k { Kind::Knight | Kind::Bishop => 1, Kind::Rook => 2, Kind::Queen => 4, _ => 0 }).sum();
        if phase > 24 {
            phase_excess = true;
        }
        for (name, b) in [("the generator", &gen_b), ("the text-move applier", &txt_b)] {
            if name == "the generator" && !gen_alive {
                continue;
            }
            let got = catch(|| get_evaluation(b)).map_err(|e| format!("get_evaluation panicked: {}", e))?;
            if got != want {
                return Err(format!("the board produced by {} after {:?} from '{}' evaluates to {} but the same placement '{}' loaded from FEN evaluates to {}", name, moves.iter().map(mv_name).collect::<Vec<_>>(), start.fen(), got, p.fen(), want));
            }
        }
        if m.promo.is_some() {
            st.label("game_with_promotion");
        }
    }
    if phase_excess {
        st.label("game_phase_above_24_at_some_point");
        st.nontrivial(fp(&(start, moves, 1)));
    } else if !moves.is_empty() {
        st.nontrivial(fp(&(start, moves)));
    }
    Ok(())
}

pub fn replay_c14(case: &Value) -> CaseResult {
    if case.get("moves").is_some() {
        let (start, moves) = parse_game_case(case)?;
        return c14_game(&start, &moves, &mut Stats::new());
    }
    let fen = case.get("fen").and_then(|x| x.as_str()).ok_or("no fen in replay case")?;
    let p = Pos::parse_fen(fen).ok_or("fen does not parse")?;
    let extra = case.get("extra").and_then(|x| x.as_u64()).unwrap_or(0) as u16;
    c14_position(&p, extra, &mut Stats::new())
}
