//! C09, pure part: the planned time slice and the parsing of `go`.
use crate::board::PieceColor;
use crate::bridge::*;
use crate::runner::*;
use crate::time_control::GameTime;
use crate::uci::verif_parse_go_command;
use proptest::prelude::*;
use serde_json::{json, Value};

#[derive(Debug, Clone)]
pub struct Clocks {
    pub wtime: i128,
    pub btime: i128,
    pub winc: i128,
    pub binc: i128,
    pub mtg: Option<u32>,
    pub white: bool,
    /// replacement values for the OTHER side's clock and increment (must not matter)
    pub other_time: i128,
    pub other_inc: i128,
}

pub fn slice_of(c: &Clocks) -> Result<u128, String> {
    let gt = GameTime { wtime: c.wtime, btime: c.btime, winc: c.winc, binc: c.binc, movestogo: c.mtg };
    catch(|| gt.calculate_time_slice(if c.white { PieceColor::White } else { PieceColor::Black })).map_err(|e| format!("calculate_time_slice panicked: {}", e))
}

/// the known finding F6 (see known_findings.json): with no usable clock the increment branch plans
/// 80% of the increment even when that exceeds the remaining clock
pub fn is_f6(clock: i128, inc: i128, slice: u128) -> bool {
    clock <= 100 && inc > 0 && slice == ((inc as f64) * 0.8).round() as u128 && (slice as i128) > clock.max(0)
}

pub enum Verdict {
    Ok,
    Known,
}

pub fn c09_pure(c: &Clocks, st: &mut Stats) -> Result<Verdict, String> {
    st.eval();
    let slice = slice_of(c)?;
    let (clock, inc) = if c.white { (c.wtime, c.winc) } else { (c.btime, c.binc) };
    let desc = || format!("wtime {} btime {} winc {} binc {} movestogo {:?}, {} to move", c.wtime, c.btime, c.winc, c.binc, c.mtg, if c.white { "white" } else { "black" });
    // (i) only the mover's clock and increment matter
    let mut o = c.clone();
    if c.white {
        o.btime = c.other_time;
        o.binc = c.other_inc;
    } else {
        o.wtime = c.other_time;
        o.winc = c.other_inc;
    }
    let slice_o = slice_of(&o)?;
    if slice_o != slice {
        return Err(format!("time slice depends on the opponent's clock: {} plans {} ms, but with the opponent's clock/increment changed to {}/{} it plans {} ms", desc(), slice, c.other_time, c.other_inc, slice_o));
    }
    let mtg = c.mtg.unwrap_or(30) as f64;
    let s = slice as f64;
    if clock > 100 {
        // (ii) at most 80% of (clock - margin) / moves to go
        let bound = 0.8 * ((clock - 100) as f64) / mtg;
        if s > bound * (1.0 + 1e-9) + 1.0 {
            return Err(format!("{}: plans {} ms, more than 80% of (clock - 100 ms) / moves-to-go = {:.1} ms", desc(), slice, bound));
        }
    } else if inc <= 0 {
        // (iii) no usable clock and no increment: zero
        if slice != 0 {
            return Err(format!("{}: no usable clock and no increment, but {} ms are planned", desc(), slice));
        }
    }
    // (iv) never more than the remaining clock
    let remaining = clock.max(0) as f64;
    let mut verdict = Verdict::Ok;
    if s > remaining * (1.0 + 1e-9) + 1.0 {
        if is_f6(clock, inc, slice) {
            verdict = Verdict::Known;
        } else {
            return Err(format!("{}: plans {} ms with only {} ms on the mover's clock", desc(), slice, clock));
        }
    }
    let near_margin = clock.saturating_sub(100).saturating_abs() <= 5;
    let lopsided = {
        let (a, b) = (c.wtime.max(1) as f64, c.btime.max(1) as f64);
        a > 2.0 * b || b > 2.0 * a
    };
    let inc_only = clock <= 100 && inc > 0;
    if near_margin {
        st.label("clock_within_5ms_of_margin");
    }
    if lopsided {
        st.label("clocks_differ_by_more_than_2x");
    }
    if inc_only {
        st.label("increment_only_case");
    }
    if clock < 0 {
        st.label("negative_clock");
    }
    if clock > (1i128 << 53) {
        st.label("clock_beyond_f64_integer_range");
    }
    if near_margin || lopsided || inc_only {
        st.nontrivial(fp(&(c.wtime, c.btime, c.winc, c.binc, c.mtg, c.white)));
    }
    Ok(verdict)
}

fn time_value() -> impl Strategy<Value = i128> {
    prop_oneof![
        2 => (-1000i128..0),
        1 => Just(0i128),
        4 => 1i128..=200,
        2 => prop_oneof![Just(99i128), Just(100i128), Just(101i128), Just(102i128), Just(105i128)],
        5 => 100i128..=10_000_000,
        2 => (0u32..62).prop_flat_map(|e| (1i128 << e)..(1i128 << (e + 1))),
        1 => prop_oneof![Just(i128::MAX), Just(i128::MIN), Just(i64::MAX as i128), Just(i64::MIN as i128), Just(u64::MAX as i128)],
    ]
}
fn mtg_value() -> impl Strategy<Value = Option<u32>> {
    prop_oneof![
        3 => Just(None),
        2 => Just(Some(1u32)),
        4 => (1u32..=40).prop_map(Some),
        1 => Just(Some(10_000u32)),
        1 => Just(Some(u32::MAX)),
        1 => any::<u32>().prop_map(|v| Some(v.max(1))),
        // integer-width boundaries: k * 2^e + d (a product such as 4 * movestogo or 5 * movestogo / 4
        // computed in 32 or 16 bits wraps just above these)
        2 => (14u32..32, 1u64..4, 0u64..6).prop_map(|(e, k, d)| Some(((k << e) + d).min(u32::MAX as u64).max(1) as u32)),
        1 => (1u64..11, 0u64..4).prop_map(|(div, d)| Some((((1u64 << 32) / div) + d).min(u32::MAX as u64) as u32)),
    ]
}
pub fn clocks_strategy() -> impl Strategy<Value = Clocks> {
    (time_value(), time_value(), time_value(), time_value(), mtg_value(), any::<bool>(), time_value(), time_value()).prop_map(|(wtime, btime, winc, binc, mtg, white, other_time, other_inc)| Clocks { wtime, btime, winc, binc, mtg, white, other_time, other_inc })
}
fn clocks_json(c: &Clocks) -> Value {
    json!({"wtime": c.wtime.to_string(), "btime": c.btime.to_string(), "winc": c.winc.to_string(), "binc": c.binc.to_string(), "movestogo": c.mtg, "white_to_move": c.white, "other_time": c.other_time.to_string(), "other_inc": c.other_inc.to_string()})
}
fn clocks_from_json(v: &Value) -> Result<Clocks, String> {
    let g = |k: &str| -> Result<i128, String> { v.get(k).and_then(|x| x.as_str()).ok_or(format!("missing {}", k))?.parse::<i128>().map_err(|e| e.to_string()) };
    Ok(Clocks {
        wtime: g("wtime")?,
        btime: g("btime")?,
        winc: g("winc")?,
        binc: g("binc")?,
        mtg: v.get("movestogo").and_then(|x| x.as_u64()).map(|x| x as u32),
        white: v.get("white_to_move").and_then(|x| x.as_bool()).unwrap_or(true),
        other_time: g("other_time")?,
        other_inc: g("other_inc")?,
    })
}

// --- parsing of `go` ---------------------------------------------------------------------------

#[derive(Debug, Clone)]
pub struct GoRecipe {
    /// fields present, in order: (field 0..5 = wtime btime winc binc movestogo, value)
    pub fields: Vec<(u8, i128)>,
    /// ignorable tokens inserted at key boundaries: (slot, which)
    pub noise: Vec<(u8, u8)>,
}
const NOISE: [&str; 9] = ["infinite", "ponder", "depth 6", "nodes 50000", "mate 3", "movetime 1000", "searchmoves e2e4 d2d4", "foo", "xyzzy 12"];
pub fn go_tokens(r: &GoRecipe) -> (Vec<String>, [Option<i128>; 5]) {
    let mut present: [Option<i128>; 5] = [None; 5];
    let mut fields: Vec<(u8, i128)> = vec![];
    for &(f, v) in &r.fields {
        let f = f % 5;
        if present[f as usize].is_none() {
            let v = if f == 4 { (v.unsigned_abs() % (u32::MAX as u128)).max(1) as i128 } else { v };
            present[f as usize] = Some(v);
            fields.push((f, v));
        }
    }
    let mut toks = vec!["go".to_string()];
    let push_noise = |slot: usize, toks: &mut Vec<String>| {
        for &(s, w) in &r.noise {
            if s as usize % (fields.len() + 1) == slot {
                toks.extend(NOISE[w as usize % NOISE.len()].split(' ').map(|x| x.to_string()));
            }
        }
    };
    for (i, &(f, v)) in fields.iter().enumerate() {
        push_noise(i, &mut toks);
        toks.push(["wtime", "btime", "winc", "binc", "movestogo"][f as usize].to_string());
        toks.push(v.to_string());
    }
    push_noise(fields.len(), &mut toks);
    (toks, present)
}
pub fn c09_parse(r: &GoRecipe, st: &mut Stats) -> CaseResult {
    st.eval();
    let (toks, present) = go_tokens(r);
    let refs: Vec<&str> = toks.iter().map(|s| s.as_str()).collect();
    let gt = catch(|| verif_parse_go_command(&refs)).map_err(|e| format!("parse_go_command panicked on `{}`: {}", toks.join(" "), e))?;
    let got = [Some(gt.wtime), Some(gt.btime), Some(gt.winc), Some(gt.binc), gt.movestogo.map(|x| x as i128)];
    for f in 0..5 {
        let want = match (f, present[f]) {
            (4, None) => None,
            (_, None) => Some(0),
            (_, v) => v,
        };
        if got[f] != want {
            return Err(format!("`{}` parsed {} as {:?}, expected {:?}", toks.join(" "), ["wtime", "btime", "winc", "binc", "movestogo"][f], got[f], want));
        }
    }
    if !r.noise.is_empty() && toks.len() > 1 + 2 * present.iter().flatten().count() {
        st.label("with_ignored_tokens");
        st.nontrivial(fp(&toks));
    }
    if present.iter().flatten().count() < 5 {
        st.label("some_field_absent");
    }
    Ok(())
}
fn go_strategy() -> impl Strategy<Value = GoRecipe> {
    (proptest::collection::vec((0u8..5, time_value()), 0..7), proptest::collection::vec((0u8..8, 0u8..9), 0..4)).prop_map(|(fields, noise)| GoRecipe { fields, noise })
}

pub fn run_c09_pure(ctx: &mut Ctx) {
    let t = ctx.tier;
    let known = std::sync::atomic::AtomicU64::new(0);
    let f6_listed = ctx.has_known("F6");
    run_prop(
        ctx,
        "time_slice_generated_clocks",
        clocks_strategy,
        t.pick(2_400_000, 24_000_000),
        |c, st| {
            st.sample(|| clocks_json(c));
            match c09_pure(c, st)? {
                Verdict::Ok => Ok(()),
                Verdict::Known => {
                    if f6_listed {
                        st.excluded_known += 1;
                        known.fetch_add(1, std::sync::atomic::Ordering::Relaxed);
                        Ok(())
                    } else {
                        let (clock, inc) = if c.white { (c.wtime, c.winc) } else { (c.btime, c.binc) };
                        Err(format!("plans {} ms with only {} ms on the mover's clock (increment {})", slice_of(c).unwrap_or(0), clock, inc))
                    }
                }
            }
        },
        clocks_json,
    );
    // exhaustive grid around the margin
    // exhaustive grid around the margin: clock 0..=Cmax x 6 increments x 8 moves-to-go settings x both
    // colours (Cmax 1000 quick, 20000 thorough)
    let incs = [0i128, 1, 50, 125, 1000, 60_000];
    let mtgs = [None, Some(1u32), Some(2u32), Some(3u32), Some(10u32), Some(30u32), Some(40u32), Some(200u32)];
    let cmax: u64 = t.pick(1_000, 20_000);
    let grid = (cmax + 1) * 6 * 8 * 2;
    run_enum(
        ctx,
        "time_slice_grid_exhaustive",
        grid,
        true,
        |i, st| {
            let white = i % 2 == 0;
            let mtg = mtgs[(i / 2 % 8) as usize];
            let inc = incs[(i / 16 % 6) as usize];
            let clock = (i / 96) as i128;
            let c = if white { Clocks { wtime: clock, btime: 777_777, winc: inc, binc: 5, mtg, white, other_time: 1, other_inc: 99_999 } } else { Clocks { wtime: 777_777, btime: clock, winc: 5, binc: inc, mtg, white, other_time: 1, other_inc: 99_999 } };
            match c09_pure(&c, st)? {
                Verdict::Ok => Ok(()),
                Verdict::Known => {
                    if f6_listed {
                        st.excluded_known += 1;
                        known.fetch_add(1, std::sync::atomic::Ordering::Relaxed);
                        Ok(())
                    } else {
                        Err(format!("plans {} ms with only {} ms on the mover's clock (increment {})", slice_of(&c).unwrap_or(0), clock, inc))
                    }
                }
            }
        },
        |i| json!({"grid_index": i}),
    );
    let n = known.load(std::sync::atomic::Ordering::Relaxed);
    if n > 0 {
        for _ in 0..n.min(1) {
            ctx.known_hit("F6", "with no usable clock (<= 100 ms) the increment branch plans round(0.8 * increment) even when that exceeds the remaining clock, e.g. `go wtime 50 winc 1000` plans 800 ms");
        }
        if let Some(e) = ctx.known_hits.get_mut("F6") {
            e.1 = n;
        }
    }
    run_prop(ctx, "go_command_parsing", go_strategy, t.pick(1_200_000, 10_000_000), |r, st| c09_parse(r, st), |r| json!({"go": go_tokens(r).0.join(" ")}));
}

pub fn replay_c09_pure(case: &Value) -> Option<CaseResult> {
    if let Some(g) = case.get("go").and_then(|x| x.as_str()) {
        // re-parse and compare against a straightforward reading of the text
        let toks: Vec<&str> = g.split(' ').collect();
        let r = catch(|| verif_parse_go_command(&toks)).map_err(|e| format!("parse_go_command panicked on `{}`: {}", g, e));
        let gt = match r {
            Ok(gt) => gt,
            Err(e) => return Some(Err(e)),
        };
        let mut want: [Option<i128>; 5] = [Some(0), Some(0), Some(0), Some(0), None];
        let keys = ["wtime", "btime", "winc", "binc", "movestogo"];
        let mut i = 1;
        while i + 1 < toks.len() {
            if let Some(k) = keys.iter().position(|k| *k == toks[i]) {
                want[k] = toks[i + 1].parse::<i128>().ok();
                i += 1;
            }
            i += 1;
        }
        let got = [Some(gt.wtime), Some(gt.btime), Some(gt.winc), Some(gt.binc), gt.movestogo.map(|x| x as i128)];
        return Some(if got == want { Ok(()) } else { Err(format!("`{}` parsed as {:?}, expected {:?}", g, got, want)) });
    }
    if case.get("wtime").is_some() {
        return Some(clocks_from_json(case).and_then(|c| match c09_pure(&c, &mut Stats::new())? {
            Verdict::Ok => Ok(()),
            Verdict::Known => Err("matches known finding F6 (increment branch exceeds the remaining clock)".into()),
        }));
    }
    None
}
