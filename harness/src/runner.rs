//! Shared driver: statistics, evidence, violations/replay files, known findings, and the parallel
//! proptest runner.
#![allow(dead_code)]
use proptest::strategy::{Strategy, ValueTree};
use proptest::test_runner::{Config, RngSeed, TestCaseError, TestError, TestRunner};
use serde_json::{json, Value};
use std::collections::{BTreeMap, HashSet};
use std::hash::{Hash, Hasher};
use std::sync::Mutex;
use std::time::Instant;

pub const VERIF_DIR: &str = "/verif";

#[derive(Copy, Clone, PartialEq, Eq, Debug)]
pub enum Tier {
    Quick,
    Thorough,
}
impl Tier {
    pub fn name(self) -> &'static str {
        match self {
            Tier::Quick => "quick",
            Tier::Thorough => "thorough",
        }
    }
    /// pick a size by tier
    pub fn pick<T>(self, quick: T, thorough: T) -> T {
        match self {
            Tier::Quick => quick,
            Tier::Thorough => thorough,
        }
    }
}

pub fn fp<T: Hash>(t: &T) -> u64 {
    let mut h = std::collections::hash_map::DefaultHasher::new();
    t.hash(&mut h);
    h.finish()
}

/// Per-worker statistics, merged at the end of a family.
#[derive(Default, Clone)]
pub struct Stats {
    pub evaluations: u64,
    pub nontrivial: HashSet<u64>,
    pub labels: BTreeMap<String, u64>,
    pub samples: Vec<Value>,
    pub excluded_known: u64,
    pub unjudged: u64,
    /// non-trivial cases of an exhaustive enumeration, distinct by construction (each index is a
    /// different case), counted instead of fingerprinted when the space is too large for a set
    pub nontrivial_by_construction: u64,
    frozen: bool,
}
impl Stats {
    pub fn new() -> Stats {
        Stats::default()
    }
    /// one generated case / execution
    pub fn eval(&mut self) {
        if !self.frozen {
            self.evaluations += 1;
        }
    }
    pub fn evals(&mut self, n: u64) {
        if !self.frozen {
            self.evaluations += n;
        }
    }
    /// record a case that is non-trivial by the property's rule, by canonical fingerprint
    pub fn nontrivial(&mut self, fingerprint: u64) {
        if !self.frozen {
            self.nontrivial.insert(fingerprint);
        }
    }
    pub fn label(&mut self, l: &str) {
        if !self.frozen {
            *self.labels.entry(l.to_string()).or_insert(0) += 1;
        }
    }
    pub fn label_n(&mut self, l: &str, n: u64) {
        if !self.frozen {
            *self.labels.entry(l.to_string()).or_insert(0) += n;
        }
    }
    pub fn sample(&mut self, v: impl FnOnce() -> Value) {
        if !self.frozen && self.samples.len() < 3 {
            self.samples.push(v());
        }
    }
    pub fn freeze(&mut self) {
        self.frozen = true;
    }
    pub fn merge(&mut self, o: Stats) {
        self.evaluations += o.evaluations;
        self.nontrivial.extend(o.nontrivial);
        for (k, v) in o.labels {
            *self.labels.entry(k).or_insert(0) += v;
        }
        for s in o.samples {
            if self.samples.len() < 12 {
                self.samples.push(s);
            }
        }
        self.excluded_known += o.excluded_known;
        self.unjudged += o.unjudged;
        self.nontrivial_by_construction += o.nontrivial_by_construction;
    }
}

/// violations recorded so far in this process (property, seed, tier are in WATCHDOG_CTX): lets the
/// watchdog report what was already found when a later family does not finish
pub static FOUND: Mutex<Vec<Violation>> = Mutex::new(Vec::new());
pub static WATCHDOG_CTX: Mutex<Option<(String, u64, String)>> = Mutex::new(None);
/// failing cases seen by a worker that is still shrinking them (not yet minimal): reported by the
/// watchdog when shrinking does not finish in time (a hanging engine makes every attempt slow)
pub static FOUND_EARLY: Mutex<Vec<Violation>> = Mutex::new(Vec::new());

fn write_replay(out_dir: &str, property: &str, seed: u64, tier: &str, v: &Violation) -> String {
    let body = json!({"property": property, "family": v.family, "case": v.case, "message": v.message, "seed": seed, "tier": tier});
    let name = format!("{}_{}_{:016x}.json", property, v.family, fp(&serde_json::to_string(&v.case).unwrap_or_default()));
    let path = format!("{}/replays/{}", out_dir, name);
    std::fs::create_dir_all(format!("{}/replays", out_dir)).ok();
    std::fs::write(&path, serde_json::to_string_pretty(&body).unwrap()).ok();
    path
}

/// called by the watchdog thread: report what was found before the stall; exit 1 if anything was,
/// otherwise exit 2 (inconclusive)
pub fn watchdog_fire(limit: u64) -> ! {
    let out_dir = std::env::var("VERIF_OUT_DIR").unwrap_or_else(|_| VERIF_DIR.to_string());
    let mut found: Vec<Violation> = FOUND.lock().map(|g| g.clone()).unwrap_or_default();
    if found.is_empty() {
        found = FOUND_EARLY.lock().map(|g| g.clone()).unwrap_or_default().into_iter().filter(|v| !v.message.starts_with("HARNESS:")).collect();
    }
    let ctx = WATCHDOG_CTX.lock().ok().and_then(|g| g.clone());
    if let (Some((prop, seed, tier)), false) = (ctx, found.is_empty()) {
        for v in found.iter().take(20) {
            let path = write_replay(&out_dir, &prop, seed, &tier, v);
            println!("VIOLATION property={} replay={}", prop, path);
            println!("  family={} : {}", v.family, v.message.replace('\n', " | "));
        }
        eprintln!("HARNESS WATCHDOG: a later family did not finish within {} s; the violations found before that are reported above (no evidence file written)", limit);
        std::process::exit(1);
    }
    eprintln!("HARNESS WATCHDOG: check did not finish within {} s - inconclusive, no verdict", limit);
    std::process::exit(2);
}

#[derive(Clone, Debug)]
pub struct Violation {
    pub family: String,
    pub case: Value,
    pub message: String,
}

#[derive(Clone, Debug)]
pub struct KnownFinding {
    pub property: String,
    pub id: String,
    pub status: String, // "known" or "fixed"
    pub signature: String,
    pub what: String,
}

pub struct Ctx {
    pub property: String,
    pub tier: Tier,
    pub seed: u64,
    pub workers: usize,
    pub level: String,
    pub stats: Stats,
    pub families: BTreeMap<String, Value>,
    pub violations: Vec<Violation>,
    pub known: Vec<KnownFinding>,
    pub known_hits: BTreeMap<String, (String, u64)>,
    pub rule: String,
    pub assumptions: Vec<String>,
    pub exhaustive_parts: Vec<String>,
    pub inconclusive: Vec<String>,
    pub harness_errors: Vec<String>,
    /// when set (seconds), a generated case that does not return within that time is reported as a
    /// violation (non-termination) instead of stalling the check until the watchdog ends it
    pub hang_limit_s: Option<u64>,
    pub max_shrink_iters: u32,
    pub start: Instant,
}

impl Ctx {
    pub fn new(property: &str, tier: Tier, seed: u64) -> Ctx {
        let workers = std::env::var("VERIF_WORKERS").ok().and_then(|s| s.parse().ok()).unwrap_or_else(|| {
            std::thread::available_parallelism().map(|n| n.get()).unwrap_or(8).min(16)
        });
        if let Ok(mut g) = WATCHDOG_CTX.lock() {
            *g = Some((property.to_string(), seed, tier.name().to_string()));
        }
        Ctx {
            property: property.to_string(),
            tier,
            seed,
            workers,
            level: "exploration".into(),
            stats: Stats::new(),
            families: BTreeMap::new(),
            violations: vec![],
            known: load_known_findings(property),
            known_hits: BTreeMap::new(),
            rule: String::new(),
            assumptions: vec![],
            exhaustive_parts: vec![],
            inconclusive: vec![],
            harness_errors: vec![],
            hang_limit_s: None,
            max_shrink_iters: 4096,
            start: Instant::now(),
        }
    }
    pub fn n(&self, quick: u32, thorough: u32) -> u32 {
        self.tier.pick(quick, thorough)
    }
    /// record what a family covered (sub-counts shown in evidence.coverage.families)
    pub fn family_done(&mut self, name: &str, st: Stats, extra: Value) {
        let mut v = json!({
            "evaluations": st.evaluations,
            "distinct_nontrivial": st.nontrivial.len() as u64 + st.nontrivial_by_construction,
            "labels": st.labels,
        });
        if st.excluded_known > 0 {
            v["excluded_as_known_finding"] = json!(st.excluded_known);
        }
        if st.unjudged > 0 {
            v["unjudged"] = json!(st.unjudged);
        }
        if let (Some(o), Some(e)) = (v.as_object_mut(), extra.as_object()) {
            for (k, x) in e {
                o.insert(k.clone(), x.clone());
            }
        }
        self.families.insert(name.to_string(), v);
        // fingerprints are salted per family so identical cases of two families stay distinct
        let salt = fp(&name);
        let mut st = st;
        st.nontrivial = st.nontrivial.into_iter().map(|x| x ^ salt).collect();
        self.stats.merge(st);
    }
    pub fn violation(&mut self, family: &str, case: Value, message: String) {
        let v = Violation { family: family.to_string(), case, message };
        if let Ok(mut g) = FOUND.lock() {
            g.push(v.clone());
        }
        self.violations.push(v);
    }
    pub fn known_hit(&mut self, id: &str, what: &str) {
        let e = self.known_hits.entry(id.to_string()).or_insert((what.to_string(), 0));
        e.1 += 1;
    }
    pub fn has_known(&self, id: &str) -> bool {
        self.known.iter().any(|k| k.id == id && k.status == "known")
    }
}

pub fn load_known_findings(property: &str) -> Vec<KnownFinding> {
    let path = format!("{}/known_findings.json", VERIF_DIR);
    let Ok(text) = std::fs::read_to_string(&path) else { return vec![] };
    let Ok(v) = serde_json::from_str::<Value>(&text) else { return vec![] };
    let mut out = vec![];
    if let Some(arr) = v.get("findings").and_then(|x| x.as_array()) {
        for f in arr {
            let g = |k: &str| f.get(k).and_then(|x| x.as_str()).unwrap_or("").to_string();
            if g("property") == property {
                out.push(KnownFinding { property: g("property"), id: g("id"), status: g("status"), signature: g("signature"), what: g("what") });
            }
        }
    }
    out
}

/// Finish a check: write evidence, replay files, print verdict lines; returns the exit code.
pub fn finish(ctx: Ctx) -> i32 {
    let wall = ctx.start.elapsed().as_secs_f64();
    let mut exit = 0;
    // development runs against a scratch copy of the repository write elsewhere (VERIF_OUT_DIR)
    let out_dir = std::env::var("VERIF_OUT_DIR").unwrap_or_else(|_| VERIF_DIR.to_string());
    std::fs::create_dir_all(format!("{}/replays", out_dir)).ok();
    std::fs::create_dir_all(format!("{}/evidence", out_dir)).ok();
    let mut vio_out = vec![];
    for (i, v) in ctx.violations.iter().enumerate() {
        let path = write_replay(&out_dir, &ctx.property, ctx.seed, ctx.tier.name(), v);
        if i < 20 {
            println!("VIOLATION property={} replay={}", ctx.property, path);
            println!("  family={} : {}", v.family, v.message.replace('\n', " | "));
        }
        vio_out.push(json!({"family": v.family, "replay": path, "message": v.message}));
        exit = 1;
    }
    if ctx.violations.len() > 20 {
        println!("  ... and {} more violations (all written to {}/replays)", ctx.violations.len() - 20, out_dir);
    }
    for (id, (what, n)) in &ctx.known_hits {
        println!("KNOWN-FINDING: property={} {} [{}; {} generated cases matched the listed signature and were excluded]", ctx.property, what, id, n);
    }
    let mut samples = ctx.stats.samples.clone();
    samples.truncate(10);
    if samples.is_empty() {
        samples.push(json!("no sample recorded"));
    }
    let mut coverage = json!({
        "evaluations": ctx.stats.evaluations,
        "distinct_nontrivial": ctx.stats.nontrivial.len() as u64 + ctx.stats.nontrivial_by_construction,
        "rule": ctx.rule,
        "samples": samples,
        "labels": ctx.stats.labels,
        "families": ctx.families,
        "excluded_as_known_finding": ctx.stats.excluded_known,
        "unjudged": ctx.stats.unjudged,
        "workers": ctx.workers,
    });
    if !ctx.exhaustive_parts.is_empty() {
        coverage["exhaustive_subfamilies"] = json!(ctx.exhaustive_parts);
    }
    if !ctx.inconclusive.is_empty() {
        coverage["inconclusive"] = json!(ctx.inconclusive);
    }
    if !ctx.harness_errors.is_empty() {
        coverage["harness_errors"] = json!(ctx.harness_errors);
    }
    if !vio_out.is_empty() {
        coverage["violation_list"] = json!(vio_out);
    }
    let ev = json!({
        "property_id": ctx.property,
        "tier": ctx.tier.name(),
        "seed": ctx.seed,
        "level": ctx.level,
        "coverage": coverage,
        "assumptions": ctx.assumptions,
        "wall_s": (wall * 1000.0).round() / 1000.0,
        "violations": ctx.violations.len(),
        "known_findings_matched": ctx.known_hits.iter().map(|(k, v)| json!({"id": k, "cases": v.1})).collect::<Vec<_>>(),
        "repo": env!("WALLEYE_REPO_AT_BUILD"),
    });
    let evpath = format!("{}/evidence/{}.json", out_dir, ctx.property);
    if let Err(e) = std::fs::write(&evpath, serde_json::to_string_pretty(&ev).unwrap()) {
        eprintln!("cannot write evidence {}: {}", evpath, e);
        return 2;
    }
    if !ctx.harness_errors.is_empty() {
        for h in ctx.harness_errors.iter().take(5) {
            eprintln!("HARNESS ERROR (not a verdict): {}", h);
        }
        if exit == 0 {
            exit = 2;
        }
    }
    println!(
        "{} {} seed={} evaluations={} distinct_nontrivial={} violations={} wall={:.1}s",
        ctx.property,
        ctx.tier.name(),
        ctx.seed,
        ctx.stats.evaluations,
        ctx.stats.nontrivial.len() as u64 + ctx.stats.nontrivial_by_construction,
        ctx.violations.len(),
        wall
    );
    for (k, v) in &ctx.families {
        println!("  family {:<28} evaluations={:<10} nontrivial={}", k, v["evaluations"], v["distinct_nontrivial"]);
    }
    exit
}

/// development aid: VERIF_ONLY_FAMILY=<substring> runs only the families whose name contains it
pub fn family_filtered_out(family: &str) -> bool {
    match std::env::var("VERIF_ONLY_FAMILY") {
        Ok(f) if !f.is_empty() => !family.contains(&f),
        _ => false,
    }
}

/// Outcome of one generated case.
pub type CaseResult = Result<(), String>;

/// Run a property over a proptest strategy on `ctx.workers` threads. Each worker owns a
/// `TestRunner` seeded from (VERIF_SEED, family, worker index) and runs `cases/workers` cases.
/// `check` receives the generated value and the worker's statistics; Err(message) fails the case,
/// proptest shrinks it, and the minimal value is turned into a concrete replay case by `to_case`.
/// Statistics are frozen at the first failure of a worker (the closure is re-run while shrinking).
pub fn run_prop<S, M, F, C>(ctx: &mut Ctx, family: &str, make_strategy: M, cases: u32, check: F, to_case: C)
where
    S: Strategy,
    M: Fn() -> S + Sync,
    S::Value: Clone + std::fmt::Debug + Send,
    F: Fn(&S::Value, &mut Stats) -> CaseResult + Sync,
    C: Fn(&S::Value) -> Value + Sync,
{
    if family_filtered_out(family) {
        return;
    }
    let workers = ctx.workers.max(1);
    let per = (cases as usize + workers - 1) / workers;
    let merged: Mutex<(Stats, Vec<Violation>, Vec<String>)> = Mutex::new((Stats::new(), vec![], vec![]));
    let fam_salt = fp(&(family, &ctx.property));
    let seed = ctx.seed;
    let shrink_iters = ctx.max_shrink_iters;
    let hang_limit = ctx.hang_limit_s;
    // per-worker "case in flight" slots for the non-termination monitor
    let slots: Vec<Mutex<Option<(Instant, S::Value)>>> = (0..workers).map(|_| Mutex::new(None)).collect();
    let done = std::sync::atomic::AtomicBool::new(false);
    let remaining = std::sync::atomic::AtomicUsize::new(workers);
    std::thread::scope(|sc| {
        if let Some(limit) = hang_limit {
            let slots = &slots;
            let done = &done;
            let to_case = &to_case;
            let family = family.to_string();
            sc.spawn(move || {
                while !done.load(std::sync::atomic::Ordering::Relaxed) {
                    std::thread::sleep(std::time::Duration::from_millis(250));
                    for s in slots.iter() {
                        let stuck = match s.lock() {
                            Ok(g) => g.as_ref().filter(|(t, _)| t.elapsed().as_secs() >= limit).map(|(_, v)| v.clone()),
                            Err(_) => None,
                        };
                        if let Some(v) = stuck {
                            // the worker cannot be interrupted: report and end the process
                            let viol = Violation { family: family.clone(), case: to_case(&v), message: format!("the call did not return within {} s on this input (non-termination)", limit) };
                            if let Ok(mut g) = FOUND.lock() {
                                g.insert(0, viol);
                            }
                            watchdog_fire(limit);
                        }
                    }
                }
            });
        }
        let done = &done;
        let remaining = &remaining;
        for w in 0..workers {
            let slots = &slots;
            let make_strategy = &make_strategy;
            let check = &check;
            let to_case = &to_case;
            let merged = &merged;
            let family = family.to_string();
            sc.spawn(move || {
                let wseed = seed.wrapping_mul(0x9E3779B97F4A7C15) ^ fam_salt.rotate_left(17) ^ (w as u64).wrapping_mul(0xD1B54A32D192ED03);
                let mut runner = TestRunner::new(Config {
                    cases: per as u32,
                    failure_persistence: None,
                    rng_seed: RngSeed::Fixed(wseed),
                    max_shrink_iters: shrink_iters,
                    max_shrink_time: 0,
                    verbose: 0,
                    source_file: None,
                    test_name: None,
                    ..Config::default()
                });
                let stats = std::cell::RefCell::new(Stats::new());
                // strategies are built inside the worker (boxed strategies are not Send)
                let strat = make_strategy();
                let res = runner.run(&strat, |v| {
                    let mut st = stats.borrow_mut();
                    if hang_limit.is_some() {
                        if let Ok(mut g) = slots[w].lock() {
                            *g = Some((Instant::now(), v.clone()));
                        }
                    }
                    let r = match crate::bridge::catch(|| check(&v, &mut st)) {
                        Ok(r) => r,
                        Err(p) => Err(format!("PANIC: {}", p)),
                    };
                    match r {
                        Ok(()) => Ok(()),
                        Err(m) => {
                            st.freeze();
                            if let Ok(mut g) = FOUND_EARLY.lock() {
                                if g.len() < 40 {
                                    g.push(Violation { family: family.clone(), case: to_case(&v), message: format!("{} (case not minimised: the run was cut off while shrinking)", m) });
                                }
                            }
                            Err(TestCaseError::fail(m))
                        }
                    }
                });
                if let Ok(mut g) = slots[w].lock() {
                    *g = None;
                }
                if remaining.fetch_sub(1, std::sync::atomic::Ordering::SeqCst) == 1 {
                    done.store(true, std::sync::atomic::Ordering::Relaxed);
                }
                let mut g = merged.lock().unwrap();
                g.0.merge(stats.into_inner());
                match res {
                    Ok(()) => {}
                    Err(TestError::Fail(reason, value)) => {
                        // re-run the minimal case once to get the message that belongs to it
                        let mut scratch = Stats::new();
                        scratch.freeze();
                        let msg = match crate::bridge::catch(|| check(&value, &mut scratch)) {
                            Ok(Err(m)) => m,
                            Err(p) => format!("PANIC: {}", p),
                            Ok(Ok(())) => format!("{} (not reproduced on re-run of the minimal case)", reason.message()),
                        };
                        g.1.push(Violation { family: family.clone(), case: to_case(&value), message: msg });
                    }
                    Err(TestError::Abort(reason)) => {
                        g.2.push(format!("family {} worker {} aborted: {}", family, w, reason.message()));
                    }
                }
            });
        }
    });
    let (st, vios, inc) = merged.into_inner().unwrap();
    // one violation per distinct minimal case; failures of the machinery itself are not verdicts
    let mut seen = HashSet::new();
    for v in vios {
        if v.message.starts_with("HARNESS:") {
            ctx.harness_errors.push(format!("{}: {}", family, v.message));
            continue;
        }
        if seen.insert(serde_json::to_string(&v.case).unwrap_or_default()) {
            if let Ok(mut g) = FOUND.lock() {
                g.push(v.clone());
            }
            ctx.violations.push(v);
        }
    }
    ctx.inconclusive.extend(inc);
    ctx.family_done(family, st, json!({"driver": "proptest", "cases_requested": cases}));
}

/// Run an exhaustive / strided enumeration `0..total` split over the workers in contiguous chunks.
/// `check(index, stats)`; the first failure of each worker is kept (smallest index wins overall).
pub fn run_enum<F, C>(ctx: &mut Ctx, family: &str, total: u64, exhaustive: bool, check: F, to_case: C)
where
    F: Fn(u64, &mut Stats) -> CaseResult + Sync,
    C: Fn(u64) -> Value + Sync,
{
    if family_filtered_out(family) {
        return;
    }
    let workers = ctx.workers.max(1) as u64;
    let merged: Mutex<(Stats, Vec<(u64, String)>)> = Mutex::new((Stats::new(), vec![]));
    std::thread::scope(|sc| {
        for w in 0..workers {
            let check = &check;
            let merged = &merged;
            sc.spawn(move || {
                let mut st = Stats::new();
                let mut fails: Vec<(u64, String)> = vec![];
                // interleaved assignment keeps the workers balanced
                let mut i = w;
                while i < total {
                    let r = match crate::bridge::catch(|| check(i, &mut st)) {
                        Ok(r) => r,
                        Err(p) => Err(format!("PANIC: {}", p)),
                    };
                    if let Err(m) = r {
                        if fails.len() < 3 {
                            fails.push((i, m));
                        }
                    }
                    i += workers;
                }
                let mut g = merged.lock().unwrap();
                g.0.merge(st);
                g.1.extend(fails);
            });
        }
    });
    let (st, mut fails) = merged.into_inner().unwrap();
    fails.sort();
    for (i, m) in fails.into_iter().take(5) {
        if m.starts_with("HARNESS:") {
            ctx.harness_errors.push(format!("{}: {}", family, m));
            continue;
        }
        let v = Violation { family: family.to_string(), case: to_case(i), message: m };
        if let Ok(mut g) = FOUND.lock() {
            g.push(v.clone());
        }
        ctx.violations.push(v);
    }
    if exhaustive {
        ctx.exhaustive_parts.push(format!("{} ({} cases, complete)", family, total));
    }
    ctx.family_done(family, st, json!({"driver": "enumeration", "exhaustive": exhaustive, "index_space": total}));
}

/// deterministic 64-bit mixer for places where an index must be spread (strided enumerations)
pub fn mix(mut x: u64) -> u64 {
    x = x.wrapping_add(0x9E3779B97F4A7C15);
    x = (x ^ (x >> 30)).wrapping_mul(0xBF58476D1CE4E5B9);
    x = (x ^ (x >> 27)).wrapping_mul(0x94D049BB133111EB);
    x ^ (x >> 31)
}

/// generate one value from a strategy with a fixed seed (used by black-box drivers that want
/// generated sessions but run them outside the TestRunner loop)
pub fn generate_values<S: Strategy>(strat: &S, seed: u64, n: usize) -> Vec<S::Value> {
    let mut runner = TestRunner::new(Config { rng_seed: RngSeed::Fixed(seed), failure_persistence: None, ..Config::default() });
    (0..n).map(|_| strat.new_tree(&mut runner).expect("strategy failed to generate").current()).collect()
}
