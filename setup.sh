#!/bin/bash
# MANIFEST.setup_cmd: build everything the checks need, offline, from files on disk only.
set -u
cd "$(dirname "$0")"
export CARGO_NET_OFFLINE=true
mkdir -p .cache evidence replays
(cd harness && cargo build --release --target-dir /verif/.cache/target) || { echo "setup: harness build failed" >&2; exit 1; }
cargo build --release --manifest-path /repo/Cargo.toml --target-dir /verif/.cache/target-bin || { echo "setup: engine build failed" >&2; exit 1; }
echo "setup done"
