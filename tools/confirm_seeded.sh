#!/bin/bash
# Confirms every seeded change under /verif/seeded/<id>/: in a scratch worktree of /repo the
# demonstration passes on the clean tree, the existing test-suite still passes with the change,
# and the demonstration fails with the change. Writes <id>/confirm.json.
W=/tmp/wv_confirm
git -C /repo worktree remove --force $W >/dev/null 2>&1; rm -rf $W
git -C /repo worktree add -q --detach $W HEAD || exit 2
cp /repo/Cargo.lock $W/
export CARGO_NET_OFFLINE=true
for d in ${@:-/verif/seeded/C*}; do
  id=$(basename $d)
  [ -f $d/patch.diff ] || continue
  demo=$(ls $d/demo?.sh 2>/dev/null | head -1)
  [ -z "$demo" ] && continue
  (cd $W && git checkout -q -- . && git clean -fdq -e target -e Cargo.lock)
  t0=$(date +%s)
  timeout 900 bash $demo $W > $d/confirm_clean.log 2>&1; clean_rc=$?
  (cd $W && git checkout -q -- . && git clean -fdq -e target -e Cargo.lock)
  if ! git -C $W apply $d/patch.diff; then echo "{\"id\":\"$id\",\"error\":\"patch does not apply\"}" > $d/confirm.json; continue; fi
  tests=$(cd $W && timeout 900 cargo test --offline 2>&1 | grep "test result" | head -1)
  timeout 900 bash $demo $W > $d/confirm_patched.log 2>&1; patched_rc=$?
  (cd $W && git checkout -q -- . && git clean -fdq -e target -e Cargo.lock)
  t1=$(date +%s)
  echo "{\"id\":\"$id\",\"demo\":\"$(basename $demo)\",\"demo_exit_clean_tree\":$clean_rc,\"demo_exit_with_patch\":$patched_rc,\"existing_tests_with_patch\":\"$tests\",\"seconds\":$((t1-t0))}" > $d/confirm.json
  cat $d/confirm.json
done
git -C /repo worktree remove --force $W; git -C /repo worktree prune
