#!/usr/bin/env python3
"""Prints the markdown sensitivity table for DESIGN.md §11 from seeded/*/meta.json."""
import json, os
rows = []
for mid in sorted(os.listdir('/verif/seeded')):
    f = f'/verif/seeded/{mid}/meta.json'
    if not os.path.exists(f):
        continue
    m = json.load(open(f))
    d = m.get('detection', {})
    caught = d.get('checks_reporting_a_violation', '').split()
    run = d.get('checks_run', '').split() or (caught + d.get('checks_silent', '').split())
    target = m['breaks_property']
    status = 'not run yet' if not d else ('**caught**' if target in caught else ('caught by other checks only' if caught else '**MISSED**'))
    rows.append((mid, target, m['change'][:110], ' '.join(caught) or '-', ' '.join(x for x in run if x not in caught) or '-', status))
print('| change | property | what was changed | checks reporting a violation | checks run and silent | target property |')
print('|---|---|---|---|---|---|')
for r in rows:
    print('| ' + ' | '.join(r) + ' |')
n = len([r for r in rows if r[5] != 'not run yet'])
print()
print(f'{len([r for r in rows if r[5]=="**caught**"])} of {n} evaluated changes are reported by the check of the property they were written against; '
      f'{len([r for r in rows if r[5].startswith("caught by other")])} only by other checks; {len([r for r in rows if r[5]=="**MISSED**"])} by none.')
