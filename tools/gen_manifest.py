#!/usr/bin/env python3
"""Writes /verif/MANIFEST.json. The per-property texts live here so the manifest stays consistent
with what is actually built; properties listed in BUILT are claimed, the others go to not_applicable
with the reason 'check not built yet' (a temporary state while the harness is under construction)."""
import json, subprocess

BUILT = ["C%02d" % i for i in range(1, 19)]

HOOK_COMMITS = ["d149e00", "3dfec6e", "79c79ea"]

P = {
 "C01": dict(level="exploration", design="DESIGN.md §5 C01",
   technique="property-based differential testing against an independent rules oracle (proptest recipes with shrinking + exhaustive enumeration of the castling and en passant families + coverage-guided fuzzing in the thorough tier)",
   text="Every generated position (walks on the engine's own successors, six constructive placement families, the complete one-extra-piece castling family and the en passant family) has its generated move multiset compared with an independent FIDE rules oracle in both directions incl. duplicates. Exploration is the right level: the property is universally quantified over ~10^44 positions; the thin regions (castling next to the enemy king, en passant pins, promotion in check) are enumerated exhaustively or constructed, the rest sampled with measured label frequencies.",
   note="Trusted base: harness/src/oracle.rs, validated on every run against six published perft totals and 22 hand-verified rule positions; positions are loaded through the engine's public from_fen or reached via its own generate_moves."),
 "C02": dict(level="exploration", design="DESIGN.md §5 C02",
   technique="property-based differential testing of every generated successor against the oracle's move execution, over chains of generated successors (proptest, shrinking) and exhaustive castling / en passant families",
   text="For every parent position explored (same generators as C01, plus promotion-rich walks so that parents which were themselves promotions are frequent) every successor is compared field by field (64 squares, side, four rights, en passant target, both cached king squares, sentinel ring) with the oracle's apply(), and the carried descriptor must have a promotion piece iff the move promotes.",
   note="Trusted base: the oracle's apply(); validated through perft totals (which exercise apply on millions of moves)."),
 "C03": dict(level="exploration", design="DESIGN.md §5 C03",
   technique="property-based black-box testing of the real binary: generated UCI sessions (position forms x go parameter classes x chains of go without a new position, a directed promotion-then-castling family) checked by the rules oracle, run under two load levels",
   text="~11,500 go commands per quick run are sent to real engine processes (16 at a time, 48 at a time, and pinned to one core; a quarter with logging on; one go in six followed at once by `stop`; a family of `position ... moves` lines of 700-13,500 plies); each must produce exactly one bestmove line (fenced by isready/readyok) naming a move that is legal in the position reached by the engine's previous answers, spelled in UCI notation with the promotion letter iff it promotes.",
   note="Thread interleavings of the search and I/O threads are sampled by load variation, not enumerated; the schedule-independent half of the argument is C07 (every board the search can hand back at any expiry point is a legal root successor)."),
 "C08": dict(level="exploration", design="DESIGN.md §5 C08",
   technique="property-based black-box testing with generated positions (16% finished games: checkmates and stalemates) and clocks; latency oracle = the engine's own planned slice + 500 ms with serial re-measurement; responsiveness probes after the answer",
   text="Each generated (position, go) is run in a real process, in six of ten cases after option lines (Ponder, Hash sizes, a button) fenced by isready: bestmove (null move when the game is over) within plan + 500 ms, then readyok within 1 s, then a fresh position + zero-allowance go served legally within the same bound, then quit ends the process. A second family uses legal positions with very large capture trees (up to eight queens or rooks a side) and slices of 0-130 ms.",
   note="A time budget miss is re-measured twice serially before it counts; a missing answer is detected after plan + 10 s. Schedules sampled; material that no sequence of promotions can produce is out of scope."),
 "C16": dict(level="exploration", design="DESIGN.md §5 C16",
   technique="differential black-box testing: generated sessions of earlier traffic followed by a probe, compared with a fresh process given only the probe (zero-allowance bestmove; timed info sequences on their common prefix) and with the probe repeated",
   text="~860 sessions per quick run: 0-25 commands of earlier traffic (positions with repetition histories, searches, ucinewgame, options, ignorable lines, also the probe's own position line used before), games continued with the engine's own move and expected reply, and sessions with 126-515 searches of other positions between two probes of one position; the probe's observable reply must equal that of a fresh engine and be repeatable.",
   note="The timed bestmove itself is excluded (depends on where the clock cuts); info sequences are compared without the time field."),
 "C17": dict(level="exploration", design="DESIGN.md §5 C17",
   technique="property-based black-box testing of generated sessions with ignorable lines, odd whitespace, unknown go tokens and seven session endings (quit / end-of-input at different points); state-unchanged oracle via the zero-allowance answer, lifecycle oracle via observed process exit",
   text="~600 sessions per quick run: isready always answered, zero-allowance answer unchanged by ignorable input (incl. single words of up to 64 KiB whose tail at a power-of-two offset spells a command, and lines of up to 30,000 multi-byte characters), a go with unknown tokens still uses the planned time (independent reading of the command), lines arriving while the engine is thinking (another position, junk, `stop`) are dealt with in order with exactly one legal bestmove, and the process ends by itself within slice + 1 s after quit or after its standard input is closed (also after a blank line or an unterminated fragment).",
   note="Invalid UTF-8, bare `position`, non-numeric clock values and movestogo 0 are outside the stated domain and not generated."),
 "C04": dict(level="exploration", design="DESIGN.md §5 C04",
   technique="property-based testing of generated games: the UCI text-move applier against the rules oracle, the generator chain and a print/replay round trip, after every prefix (proptest, shrinking to a minimal game)",
   text="Generated legal games (startpos, corpus FENs, constructed castle / promotion / en passant starts; weighted so that every castling, en passant by both colours, all four promotion pieces with and without capture and rook events on all four corners occur hundreds of times per run) are replayed through the engine's own `position` handler and move applier (reached through the verif hook); after every prefix the result is compared with the oracle position, the from-scratch key, the generator-chain board, and every generated successor is printed as text, replayed and compared with itself.",
   note="Trusted base: oracle; uci::verif_play_out_position / verif_make_move are one-line pub wrappers of the private functions the UCI loop calls."),
 "C05": dict(level="exploration", design="DESIGN.md §5 C05",
   technique="property-based testing with a from-scratch recomputation oracle and metamorphic relations (route independence over three producers, explicit transposition pairs, single-component mutation) plus exhaustive pairwise check of the 781 Zobrist constants",
   text="Every step of generated histories is judged by its key delta for the generator (all successors of both generation modes), the text applier and the FEN loader against the key recomputed from scratch through the hasher's public getters; equal positions reached by different producers or transposed move orders must have equal keys; positions differing in one component must have different keys; the constants are pairwise distinct (exhaustive).",
   note="Trusted base: scratch_key (20 lines over ZobristHasher's public getters) and the oracle for position identity."),
 "C06": dict(level="exploration", design="DESIGN.md §5 C06",
   technique="differential testing of is_check against the oracle's forward attack test: exhaustive enumeration of the three-man basis, strided four-man enumeration, proptest-generated placements",
   text="The complete three-man basis (2.37M placements incl. adjacent kings and every rim square) is enumerated and is_check asked for both colours; blockers are covered by a strided four-man family and random dense placements. The attack relation is local (one attacker, at most one relevant blocker per line), so the three/four-man families span its geometry; whole-board interactions are sampled.",
   note="Trusted base: oracle.man_attacks (geometry from the attacker's side). Boards are built by the engine's public from_fen, which sets the cached king squares."),
 "C14": dict(level="exploration", design="DESIGN.md §5 C14",
   technique="metamorphic property-based testing (colour mirror, side-to-move negation, irrelevance of non-placement fields, bound) with an exhaustive single-piece basis",
   text="The evaluation is a sum over pieces blended by a phase weight, so symmetry on the complete single-piece basis at every phase weight (exhaustive, 18,400 cases) plus random whole placements up to nine queens a side decides the relations; the bound is checked on every case against the mate range OBSERVED through the engine's own info printer (smallest score shown as `score mate`; far below = under half of it).",
   note="Trusted base: the oracle's mirror(); no reference evaluation is needed (relations only)."),
 "C07": dict(level="fault_enumeration", design="DESIGN.md §5 C07",
   technique="fault enumeration over the clock: a cfg-guarded virtual clock makes 'the k-th consultation expires' an input; every k up to a bound is executed for proptest-generated positions and compared metamorphically with a larger allowance (prefix law), with invariants after each run",
   text="The fault is expiry of the allowance; its location (which node) is the quantifier. For each generated position every expiry index 0..=K (K 1500 quick / 5000 thorough, scaled down deterministically for quiescence-heavy positions) plus sampled deeper ones is executed in-process on the real search code, ~590k searches per quick run (incl. long searches of 3M consultations whose repetition record must come back as given). Each run must not panic, must restore the repetition record, must hand back oracle-legal root successors, and its reported improvements and moves must be a prefix of those of the reference run with a larger allowance.",
   note="Assumes the virtual clock hook (first line of utils::out_of_time) is the only time source of the search; OS thread interleavings of the real binary are sampled by C03/C08, not enumerated. Expiry points beyond ~20k (quick) / 60k (thorough) consultations are only sampled."),
 "C10": dict(level="exploration", design="DESIGN.md §5 C10",
   technique="property-based testing with a model of the game history (multiset of oracle positions) for the repetition record, and generated repetition games searched under the virtual clock for the draw scoring; black-box differential sessions for the reset between position commands",
   text="Generated games with 0-25 out-and-back cycles are given to the engine's position handler and the record compared with the exact multiset of positions; in the search part the side to move (often materially lost) has a move into a position seen 2-6 times and every completed depth must score >= 0; black-box: go through UCI against a direct search on the same record, and the second go of a chain (no position in between) must still know the game.",
   note="Trusted base: oracle position identity (FEN convention for the en passant target). Depths 1..4 examined."),
 "C11": dict(level="exploration", design="DESIGN.md §5 C11",
   technique="property-based testing against an independent bounded mate solver, on constructed mate / near-mate positions (incl. a dedicated knight-promotion-only mate constructor), with the move played read off at every expiry point of the virtual clock",
   text="~26,000 constructed and walked positions per quick run (incl. oracle-filtered rare geometries: a mate in one beside a cross-check mate; roots one move before a reciprocal zugzwang in which the attacker has no tempo move) are classified by the solver; the moves the engine would play at every expiry point after iteration 1 / 2 - or when it stops of its own accord - are checked to mate / to avoid the mate, with direct re-runs; every `score mate N` claim (530k per quick run) is judged by the solver (|N| <= 3, <= 5 with at most seven men).",
   note="Clause (ii) is judged on history-free cases only (a draw by repetition legitimately overrides mate avoidance, C10). Mate claims beyond the bound or over the solver budget are counted as unjudged."),
 "C12": dict(level="exploration", design="DESIGN.md §5 C12",
   technique="differential testing against a reference model: plain fail-soft alpha-beta minimax over the engine's own generator and evaluation with its leaf rules, the model itself cross-checked against unpruned minimax on every run; cases generated by proptest with repetition histories",
   text="For ~21,000 generated positions per quick run (420k thorough), with and without repetition history, incl. promotion races, mating nets and advanced-pawn positions, the scores the engine reports for depths 1-3 and the moves it selects are compared with the exact minimax value computed by the reference.",
   note="Trusted base: the reference search (harness/src/props/searchsem.rs, 90 lines) - validated against unpruned minimax on small positions each run."),
 "C18": dict(level="exploration", design="DESIGN.md §5 C18",
   technique="property-based testing of captured search output under the virtual clock at enumerated expiry points with a strict line grammar and oracle legality of the first pv move; black-box checks of the real binary's lines in timed sessions",
   text="Every info line of ~75k searches per quick run (all expiry points up to 300, every fifth beyond, sampled deep ones) is parsed strictly and checked for depth order, score bounds, sentinel leakage, strictly increasing scores within a depth and a legal first pv move.",
   note="Output is captured through the send_to_gui hook, i.e. after formatting."),
 "C09": dict(level="exploration", design="DESIGN.md §5 C09",
   technique="property-based testing of the time policy against the stated bounds in exact terms (generated clocks incl. extremes + exhaustive grid around the safety margin), metamorphic independence from the opponent's clock, generated `go` token lists for the parser, and black-box latency measurement of the real binary against the engine's own plan",
   text="The planned slice is a pure function: 600k generated clock settings (12M thorough) plus the complete grid around the 100 ms margin are checked against the stated upper bounds and for independence from the other side's clock; the `go` parser is checked on generated token orders with ignorable tokens. The measured go->bestmove delay of the real binary is compared with the plan (tolerance 500 ms, three serial re-measurements before a violation).",
   note="Known finding F6 (increment branch may exceed the remaining clock) is excluded by its exact signature and reported as KNOWN-FINDING; any other excess is a violation. Timing part samples OS schedules."),
 "C15": dict(level="exploration", design="DESIGN.md §5 C15",
   technique="property-based testing and fuzzing of the FEN loader: arbitrary and grammar-shaped strings, character-level mutation of valid FENs, round trip through an independent strict FEN reader/writer, black-box runs of the CLI front end; libFuzzer target in the thorough tier",
   text="Totality (never panics) is checked on arbitrary unicode strings, six-field-shaped garbage and mutated valid FENs; faithfulness on every string the independent strict reader classifies as the well-formed FEN of a legal position (incl. counters up to 200 / 9000); pairs of FENs differing in exactly one field are loaded back to back (A, B, A) in one thread; the CLI error path is run as a real process in four front-end modes on generated rejected strings incl. long multi-byte ones.",
   note="Trusted base: the strict FEN reader/writer in harness/src/oracle.rs. FENs with counters beyond 200/9000 or non-standard castling field order carry no acceptance requirement."),
 "C13": dict(level="exploration", design="DESIGN.md §5 C13",
   technique="property-based differential testing of capture-only generation along chains (tree to depth 3 plus one deep line) against the oracle's legal capturing moves",
   text="Capture-only generation is applied recursively the way quiescence follows it, from roots reached by the engine's full generation (often right after a double step), with the oracle tracking the true position: move multiset = legal captures (en passant and the four capture-promotions included), successors equal the oracle's positions incl. the key delta.",
   note="Trusted base: oracle; the chain root is reached through the engine's own successors so inherited fields are exercised."),
}

def main():
    checks = []
    na = []
    props = [json.loads(l) for l in open('/verif/properties.jsonl')]
    for pr in props:
        pid = pr['id']
        if pid in BUILT:
            p = P[pid]
            checks.append({
                "property_id": pid,
                "quick_cmd": f"./check {pid} --tier quick",
                "thorough_cmd": f"./check {pid} --tier thorough",
                "evidence_file": f"/verif/evidence/{pid}.json",
                "replay_cmd_template": f"./check {pid} --replay {{path}}",
                "engine": "wverif",
                "level_claimed": {"category": p['level'], "text": p['text'], "design_ref": p['design']},
                "level_note": p['note'],
                "technique": p['technique'],
            })
        else:
            na.append({"property_id": pid, "reason": "check not built yet (harness under construction; see DESIGN.md for the planned property-based check)"})
    m = {
        "version": 1,
        "setup_cmd": "./setup.sh",
        "hooks": {
            "guard": "cargo feature `verif` (#[cfg(feature = \"verif\")])",
            "enable": "the harness crate compiles /repo/src/*.rs into itself via #[path] with its own feature `verif` on (equivalent to cargo build --features verif); black-box checks use the plain release binary with the feature off",
            "baseline_off_cmd": "cd /repo && cargo test --workspace --no-fail-fast --offline",
            "source_commits": HOOK_COMMITS,
            "add_only": True,
        },
        "engines": [
            {"name": "wverif", "path": "/verif/harness", "serves_properties": BUILT,
             "kind_free_text": "Rust binary: proptest TestRunner (fixed seed from VERIF_SEED, shrinking, no persistence) on 16 worker threads + plain enumeration loops for exhaustive families + UCI process driver; independent rules oracle, mate solver, reference search"},
        ],
        "checks": checks,
        "not_applicable": na,
        "notes": "Exit codes of ./check: 0 held, 1 violation (VIOLATION property=<id> replay=<path>), 2 machinery could not run (never a verdict). Known findings: /verif/known_findings.json. Seeded changes used for sensitivity testing: /verif/seeded/.",
    }
    json.dump(m, open('/verif/MANIFEST.json', 'w'), indent=1)
    print("wrote MANIFEST.json with", len(checks), "checks,", len(na), "not_applicable")

main()
