#!/bin/bash
# one-off helper: copies the round-4 sub-agent outputs /tmp/seed5_Cxx_out into seeded/CxxG (change A) and seeded/CxxH (change B)
for p in "$@"; do
  o=/tmp/seed5_${p}_out
  [ -f $o/patchA.diff ] || { echo "$p: no patchA"; continue; }
  for ab in A:I B:J; do
    a=${ab%%:*}; g=${ab##*:}
    [ -f $o/patch$a.diff ] || continue
    d=/verif/seeded/${p}$g; mkdir -p $d
    cp $o/patch$a.diff $d/patch.diff
    for f in $o/demo$a*; do [ -e "$f" ] && cp -r $f $d/; done
    [ -f $o/notes.md ] && cp $o/notes.md $d/notes.md
  done
  echo "$p imported: $(ls /verif/seeded/${p}I | tr '\n' ' ') | $(ls /verif/seeded/${p}J 2>/dev/null | tr '\n' ' ')"
done
