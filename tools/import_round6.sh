#!/bin/bash
# one-off helper: copies the round-6 sub-agent outputs /tmp/seed6_Cxx_out into seeded/CxxG (change A) and seeded/CxxH (change B)
for p in "$@"; do
  o=/tmp/seed6_${p}_out
  [ -f $o/patchA.diff ] || { echo "$p: no patchA"; continue; }
  for ab in A:K B:L; do
    a=${ab%%:*}; g=${ab##*:}
    [ -f $o/patch$a.diff ] || continue
    d=/verif/seeded/${p}$g; mkdir -p $d
    cp $o/patch$a.diff $d/patch.diff
    for f in $o/demo$a*; do [ -e "$f" ] && cp -r $f $d/; done
    [ -f $o/notes.md ] && cp $o/notes.md $d/notes.md
  done
  echo "$p imported: $(ls /verif/seeded/${p}K | tr '\n' ' ') | $(ls /verif/seeded/${p}L 2>/dev/null | tr '\n' ' ')"
done
