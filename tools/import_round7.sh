#!/bin/bash
# one-off helper: copies the round-7 sub-agent outputs /tmp/seed7_Cxx_out into seeded/CxxG (change A) and seeded/CxxH (change B)
for p in "$@"; do
  o=/tmp/seed7_${p}_out
  [ -f $o/patchA.diff ] || { echo "$p: no patchA"; continue; }
  for ab in A:M B:N; do
    a=${ab%%:*}; g=${ab##*:}
    [ -f $o/patch$a.diff ] || continue
    d=/verif/seeded/${p}$g; mkdir -p $d
    cp $o/patch$a.diff $d/patch.diff
    for f in $o/demo$a*; do [ -e "$f" ] && cp -r $f $d/; done
    [ -f $o/notes.md ] && cp $o/notes.md $d/notes.md
  done
  echo "$p imported: $(ls /verif/seeded/${p}M | tr '\n' ' ') | $(ls /verif/seeded/${p}N 2>/dev/null | tr '\n' ' ')"
done
