#!/bin/bash
# For every seeded change (and the regression patches undoing each repair) run the quick checks
# against a scratch worktree of /repo with the change applied; writes <id>/detect.json and a table.
# usage: tools/matrix.sh [ids...]     env PROPS="C01 C02 ..." limits the checks
HERE="$(cd "$(dirname "$0")" && pwd)"
W=${W:-/tmp/wv_matrix}
OUT=${OUT:-/tmp/wv_matrix_out}
ALL="C01 C02 C03 C04 C05 C06 C07 C08 C09 C10 C11 C12 C13 C14 C15 C16 C17 C18"
mkdir -p $OUT
for d in ${@:-$HERE/../seeded/*}; do
  d=$(cd "$d" 2>/dev/null && pwd) || continue
  id=$(basename $d)
  [ -f $d/patch.diff ] || continue
  git -C /repo worktree remove --force $W >/dev/null 2>&1; rm -rf $W
  git -C /repo worktree add -q --detach $W HEAD || exit 2
  cp /repo/Cargo.lock $W/
  git -C $W apply $d/patch.diff || { echo "$id: patch does not apply"; continue; }
  caught=""; missed=""; errs=""
  # per-id list of checks (longest matching prefix in matrix_props.txt), unless PROPS is given
  sel=""
  if [ -z "${PROPS:-}" ] && [ -f $HERE/matrix_props.txt ]; then
    sel=$(grep -v '^#' $HERE/matrix_props.txt | awk -v id="$id" '{ if (index(id, $1) == 1 && length($1) > best) { best = length($1); $1 = ""; line = $0 } } END { print line }')
  fi
  for p in ${PROPS:-${sel:-$ALL}}; do
    VERIF_OUT_DIR=$OUT WALLEYE_REPO=$W timeout 1700 $HERE/../check $p --tier quick > $OUT/$id.$p.log 2>&1
    rc=$?
    if [ $rc -eq 1 ]; then caught="$caught $p"; elif [ $rc -eq 0 ]; then missed="$missed $p"; else errs="$errs $p($rc)"; fi
  done
  python3 - "$id" "$(echo $caught)" "$(echo $missed)" "$(echo $errs)" "$(echo ${PROPS:-${sel:-$ALL}})" "$OUT" <<'PY' > $OUT/$id.detect.json
import sys, json, glob
id_, caught, missed, errs, run, out = sys.argv[1:7]
example = ""
for f in sorted(glob.glob(f"{out}/{id_}.*.log")):
    lines = open(f, errors="replace").read().splitlines()
    for i, l in enumerate(lines):
        if l.startswith("VIOLATION") and i + 1 < len(lines):
            example = lines[i + 1].strip()[:300]
            break
    if example:
        break
print(json.dumps({"id": id_, "tier": "quick", "seed": 0, "checks_reporting_a_violation": caught, "checks_run": run, "checks_silent": missed, "checks_inconclusive": errs, "example": example}))
PY
  cp $OUT/$id.detect.json $d/detect.json 2>/dev/null
  echo "$id caught_by:[$caught ] inconclusive:[$errs ]"
done
git -C /repo worktree remove --force $W >/dev/null 2>&1; git -C /repo worktree prune
