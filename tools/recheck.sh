#!/bin/bash
# Development helper: runs given (seeded id, check) pairs against a scratch worktree with the change applied.
# usage: tools/recheck.sh "C12G C12" "C04H C03" ...   -> lines "<id> <check> exit=<rc> <first violation>"
HERE="$(cd "$(dirname "$0")" && pwd)"
W=${W:-/tmp/wv_recheck}
OUT=${OUT:-/tmp/wv_recheck_out}
mkdir -p $OUT
for pair in "$@"; do
  set -- $pair; id=$1; prop=$2
  d=$HERE/../seeded/$id
  git -C /repo worktree remove --force $W >/dev/null 2>&1; rm -rf $W
  git -C /repo worktree add -q --detach $W HEAD || exit 2
  cp /repo/Cargo.lock $W/
  git -C $W apply $d/patch.diff || { echo "$id $prop patch does not apply"; continue; }
  VERIF_OUT_DIR=$OUT WALLEYE_REPO=$W timeout 1700 $HERE/../check $prop --tier quick > $OUT/$id.$prop.log 2>&1
  rc=$?
  echo "$id $prop exit=$rc $(grep -A1 '^VIOLATION' $OUT/$id.$prop.log | grep 'family=' | head -1 | cut -c1-260)"
done
git -C /repo worktree remove --force $W >/dev/null 2>&1; git -C /repo worktree prune
