#!/bin/bash
# Development helper: run every quick check under several seeds from fresh processes and report
# anything that is not a silent exit 0 on the unchanged tree.
HERE="$(cd "$(dirname "$0")" && pwd)"
SEEDS="${SEEDS:-1 2 3 4 5}"
OUT=${OUT:-/tmp/soak_out}
mkdir -p $OUT
for s in $SEEDS; do
  for p in ${PROPS:-C01 C02 C03 C04 C05 C06 C07 C08 C09 C10 C11 C12 C13 C14 C15 C16 C17 C18}; do
    VERIF_OUT_DIR=$OUT VERIF_SEED=$s $HERE/../check $p --tier ${TIER:-quick} > $OUT/$p.$s.log 2>&1
    rc=$?
    v=$(grep -c "^VIOLATION" $OUT/$p.$s.log)
    echo "seed=$s $p exit=$rc violations=$v $(grep -o 'wall=.*' $OUT/$p.$s.log)"
  done
done
