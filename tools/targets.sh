#!/bin/bash
# Development helper: for each given seeded change run only the check of the property it targets
# (meta.json: breaks_property) against a scratch worktree.  usage: tools/targets.sh seeded/C01C ...
HERE="$(cd "$(dirname "$0")" && pwd)"
W=${W:-/tmp/wv_targets}
OUT=${OUT:-/tmp/wv_targets_out}
mkdir -p $OUT
for d in "$@"; do
  d=$(cd "$d" && pwd)
  id=$(basename $d)
  prop=$(python3 -c "import json;print(json.load(open('$d/meta.json'))['breaks_property'])")
  git -C /repo worktree remove --force $W >/dev/null 2>&1; rm -rf $W
  git -C /repo worktree add -q --detach $W HEAD || exit 2
  cp /repo/Cargo.lock $W/
  git -C $W apply $d/patch.diff || { echo "$id: patch does not apply"; continue; }
  VERIF_OUT_DIR=$OUT WALLEYE_REPO=$W timeout 1700 $HERE/../check $prop --tier quick > $OUT/$id.$prop.log 2>&1
  rc=$?
  echo "$id $prop exit=$rc $(grep -A1 '^VIOLATION' $OUT/$id.$prop.log | grep 'family=' | head -1 | cut -c1-260)"
done
git -C /repo worktree remove --force $W >/dev/null 2>&1; git -C /repo worktree prune
