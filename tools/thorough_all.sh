#!/bin/bash
# Development helper: run every thorough check once and record exit code and duration.
HERE="$(cd "$(dirname "$0")" && pwd)"
OUT=${OUT:-/tmp/thorough_out}
mkdir -p $OUT
for p in ${PROPS:-C01 C02 C03 C04 C05 C06 C07 C08 C09 C10 C11 C12 C13 C14 C15 C16 C17 C18}; do
  t0=$(date +%s)
  VERIF_OUT_DIR=$OUT VERIF_SEED=${VERIF_SEED:-0} $HERE/../check $p --tier thorough > $OUT/$p.thorough.log 2>&1
  rc=$?
  t1=$(date +%s)
  echo "$p thorough exit=$rc seconds=$((t1-t0)) $(grep -c '^VIOLATION' $OUT/$p.thorough.log) violations; $(grep 'evaluations=' $OUT/$p.thorough.log | head -1)"
done
