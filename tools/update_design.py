#!/usr/bin/env python3
"""Regenerates the sensitivity table of DESIGN.md §11.1 between the MATRIX markers."""
import subprocess
t = subprocess.run(['python3', '/verif/tools/design_matrix.py'], capture_output=True, text=True).stdout
p = '/verif/DESIGN.md'
s = open(p).read()
a = s.index('<!-- MATRIX-BEGIN -->') + len('<!-- MATRIX-BEGIN -->')
b = s.index('<!-- MATRIX-END -->')
open(p, 'w').write(s[:a] + '\n' + t + s[b:])
print('DESIGN.md §11.1 updated')
