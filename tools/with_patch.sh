#!/bin/bash
# Development helper (not used by any registered check): run checks against a scratch copy of
# /repo with a patch applied or a commit reverted.
#   tools/with_patch.sh <patch.diff | revert:<commit>> <Cxx> [<Cxx>...]   (env TIER=quick|thorough)
set -u
SPEC="$1"; shift
W=/tmp/wv_mut
git -C /repo worktree remove --force $W >/dev/null 2>&1; rm -rf $W
git -C /repo worktree add -q --detach $W HEAD || exit 2
cp /repo/Cargo.lock $W/ 2>/dev/null
case "$SPEC" in
  revert:*) git -C /repo show "${SPEC#revert:}" | git -C $W apply -R || { echo "cannot revert"; exit 2; } ;;
  *) git -C $W apply "$SPEC" || { echo "cannot apply"; exit 2; } ;;
esac
rc=0
for p in "$@"; do
  echo "=== $p on $SPEC"
  VERIF_OUT_DIR=/tmp/wv_out WALLEYE_REPO=$W /verif/check $p --tier ${TIER:-quick} 2>&1 | grep -E "^VIOLATION|^  family=|^KNOWN|HARNESS|violations=" | cut -c1-600 | head -${LINES_MAX:-8}
done
git -C /repo worktree remove --force $W; git -C /repo worktree prune
