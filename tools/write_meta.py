#!/usr/bin/env python3
"""Writes /verif/seeded/<id>/meta.json from the table below, the confirmation results
(confirm.json, produced by tools/confirm_seeded.sh) and the detection results (detect.json,
produced by tools/matrix.sh)."""
import json, os

M = {
 "C06C": ("C06", "src/move_generation.rs is_check: answer for the side to move derived from the opponent's last_move only (moved piece + line uncovered through its from-square)",
          "a board produced by move generation whose last move is an en passant capture that uncovers a bishop/queen through the CAPTURED pawn's square"),
 "C06D": ("C06", "src/move_generation.rs is_check_cords: pawn probes skipped when the attacking pawn would stand on the first or last rank",
          "a placement with an enemy pawn on its own back rank diagonally in front of the king (unreachable in play, accepted by from_fen)"),
 "C01C": ("C01", "src/move_generation.rs: contact-check pre-filter (find_contact_checker) returns before the en passant section; 'behind the pawn' computed with the black offset for a white checker",
          "black to move, in check from the white pawn that just double-stepped, with a black pawn beside it: the only legal reply (en passant) is not generated"),
 "C01D": ("C01", "src/move_generation.rs: en passant generated once per position; black arm uses `if .. else if` over the two neighbouring capturers",
          "black pawns on both sides of the white pawn that just double-stepped: only one of the two en passant captures is generated"),
 "C02C": ("C02", "src/move_generation.rs: promotion handling moved before the rook-captured bookkeeping and ends with `continue`",
          "a pawn promotes by capturing an unmoved rook on its corner while the opponent still holds that right"),
 "C02D": ("C02", "src/board.rs new capture_en_passant helper never clears the en passant square",
          "any generated en passant capture: the successor keeps the parent's en passant target"),
 "C03C": ("C03", "src/uci.rs make_move: unset_pawn_double_move moved into the pawn branch",
          "`position ... moves` with a double push answered by two non-pawn moves while a pawn stands beside the pushed pawn: engine answers a stale en passant capture"),
 "C03D": ("C03", "src/engine.rs get_best_move: early `return` after the root loop when out of time skips the only place the fallback move is sent",
          "exactly one legal move and the clock expiring during that move's depth-1 search (virtual-clock expiry 1 or 2): bestmove 0000 on a live position"),
 "C04C": ("C04", "src/uci.rs send_best_move_to_gui: promotion letter only when target row == BOARD_START || BOARD_END (off by one for black)",
          "the engine itself chooses a promotion as Black: bestmove a2a1 without letter"),
 "C04D": ("C04", "src/board.rs take_away_all_castling_rights helper XORs both constants when only one right is left; used by the generator, not by the text applier",
          "a side loses exactly one right, then its king moves or castles: generated successor's key differs from the replayed one"),
 "C05C": ("C05", "src/board.rs take_away_castling_rights_for_color (both constants XORed when one right is left), used in the generator's king branch",
          "a side holding exactly one right makes a plain king move along generated successors"),
 "C05D": ("C05", "src/move_generation.rs promote_pawn: one scratch board, promotion piece XORed in per iteration and never out",
          "any generated knight / bishop / rook promotion"),
 "C07C": ("C07", "src/engine.rs alpha_beta_search: repetition bookkeeping wrapped in `if track_repetition` except the checkmate/stalemate block, which still removes",
          "null-move child that is stalemated (rare geometry, expiry horizon 20k-150k consultations): count underflows / record not restored"),
 "C07D": ("C07", "src/engine.rs get_best_move: loop-head clock check before the first sort, fallback `moves.first()` behind the loop",
          "expiry at exactly k = 0 on a position whose first generated move is not first in the ordering"),
 "C08C": ("C08", "src/engine.rs get_best_move: alpha/best_move recorded before the clock test, send skipped",
          "clock expiring inside the depth-1 search of the first root move (expiry 1 or 2): nothing is sent, bestmove 0000 on a live position"),
 "C08D": ("C08", "src/uci.rs find_and_play_best_move: zero-slice shortcut play_first_move returns without answering when there is no move",
          "finished game (mate/stalemate) together with a zero slice: go is never answered"),
 "C09C": ("C09", "src/time_control.rs: increment fallback fires when the rounded slice is 0 instead of when the clock is inside the margin",
          "mover's clock just above the margin (101-118 ms without movestogo) with a positive increment"),
 "C09D": ("C09", "src/uci.rs: time budget computed in the go arm from a cached engine_color refreshed only by position",
          "a go following another go without a position in between, with asymmetric clocks"),
 "C10C": ("C10", "src/engine.rs alpha_beta_search: repetition probe only when board.order_heuristic == 0",
          "the repeating move is the previous iteration's best move / a killer (order_heuristic overwritten): scores 0 on odd depths, losing score on even depths"),
 "C10D": ("C10", "src/draw_table.rs add_board_to_draw_table: count clamped to MAX_OCCURRENCES = 3",
          "a history in which some position occurs four or more times"),
 "C11C": ("C11", "src/evaluation.rs is_insufficient_material (one minor per side counts as insufficient), used in the draw test of alpha_beta_search",
          "K+minor v K+minor with a mate in one on the board"),
 "C11D": ("C11", "src/engine.rs get_best_move: return at the first forced mate found",
          "a mate in one plus an earlier-ordered check / cross-check line that mates in two, proven in iteration 1 through check extensions"),
 "C12C": ("C12", "src/engine.rs alpha_beta_search: repetition probe gated on board.order_heuristic == 0",
          "history with a twice-seen position reachable by a quiet move that is the previous pv or a killer"),
 "C12D": ("C12", "src/engine.rs get_best_move: root position added to the repetition record a second time",
          "perpetual-check geometry: a ply-4 return to the root through check extensions at depth <= 3"),
 "C13C": ("C13", "src/move_generation.rs: capture-only mode runs the king-safety test only for the king or pieces on a line with it",
          "a capture chain of length >= 2: a capture gives check and a non-king piece not on a line with its king 'answers' with an unrelated capture"),
 "C13D": ("C13", "src/move_generation.rs: promotion branches merged into an early `continue` before the en passant bookkeeping, unset removed from promote_pawn",
          "a promotion while an en passant target is set: the successor keeps the stale target (and key)"),
 "C14C": ("C14", "src/evaluation.rs: MAX_EVALUATION clamp returns the unsigned constant",
          "true score beyond 10000 cp (nine queens v bare king): negation under side-to-move flip lost"),
 "C14D": ("C14", "src/evaluation.rs: king table looked up at the cached king squares instead of during the scan",
          "illegal placements with two kings of one colour (outside C14's one-king-each... but inside 'any placement')"),
 "C15C": ("C15", "src/board.rs from_fen digit branch: slice fill before the bounds check",
          "a rank that overshoots the board by three or more squares through a digit"),
 "C15D": ("C15", "src/utils.rs trim_newline rewritten on raw bytes with an unguarded bytes[end-1]",
          "the input is exactly the one-character string \"\\n\""),
 "C16C": ("C16", "src/uci.rs + src/engine.rs: early answer on a forced reply leaves the old search thread printing",
          "a timed go on a single-legal-move position immediately followed by another position + go"),
 "C16D": ("C16", "src/engine.rs: process-wide EXPECTED_LINE ordering hint survives between searches",
          "the probed position is exactly P + pv[0] + pv[1] of the previous timed search's last improvement"),
 "C17C": ("C17", "src/utils.rs clean_input: final trim replaced by an unconditional pop()",
          "end of input in the middle of a line (no trailing newline): the last character of the last command is eaten"),
 "C17D": ("C17", "src/uci.rs play_game_uci: match on commands[0] replaced by starts_with chain",
          "an unknown line whose first word has a command name as a proper prefix (gobble, positional, quitting)"),
 "C18C": ("C18", "src/search.rs + src/engine.rs: stopped flag lost in the null-move probe's scratch copy of the search info",
          "clock expiring exactly on entry of the null-move probe under the first root move at depth >= 4: `score mate 0`"),
 "C18D": ("C18", "src/engine.rs + src/uci.rs: forced-move shortcut prints an info line with an empty pv",
          "a root position with exactly one legal move"),
 "C01A": ("C01", "src/move_generation.rs is_check_cords: enemy-king test rewritten as an offset table with one direction duplicated and one missing",
          "enemy king diagonally one rank below and one file left of the probed square (e.g. king walk next to the king; black castling onto a square the white king attacks); visible at depth 1 from a FEN"),
 "C01B": ("C01", "src/move_generation.rs generate_moves_for_piece: rook-moved and rook-captured right bookkeeping merged into one else-if chain",
          "a chain of generated successors with a corner-to-corner capture (a8xa1, a1xh8) or a king capturing a home-square rook, then a later castling attempt with the stale right"),
 "C02A": ("C02", "src/move_generation.rs: corner bookkeeping via corner_castling_type(from).or_else(to)",
          "an unmoved rook capturing the opposing unmoved rook along an open a- or h-file while both rights are set: the victim keeps its right"),
 "C02B": ("C02", "src/move_generation.rs generate_castling_moves: pawn_promotion reset dropped in the black queen-side block only",
          "a chain of generated successors: white promotes and black answers immediately with O-O-O; descriptor reads e8c8q"),
 "C03A": ("C03", "src/move_generation.rs generate_castling_moves: the four pawn_promotion resets deleted",
          "a go answered by a promotion followed by a second go (no new position) answered by castling: bestmove e8g8q"),
 "C03B": ("C03", "src/uci.rs make_move: corner-square right stripping replaced by a rook-moves-only branch",
          "a `position ... moves` list in which a rook is captured on its home corner by a non-rook which then leaves; search then prefers the castling that no longer exists"),
 "C04A": ("C04", "src/uci.rs make_move: contains(corner) replaced by starts_with/ends_with",
          "a replayed capture-promotion onto a corner (g7h8q: five characters do not end with the square) while the corner's owner still holds the right"),
 "C04B": ("C04", "src/move_generation.rs generate_castling_moves: pawn_promotion resets removed as 'dead code'",
          "generator chain: promotion followed by castling; the printed text e8g8q replayed does not reproduce the successor"),
 "C05A": ("C05", "src/move_generation.rs generate_castling_moves refactored to a table loop that clears pawn_double_move by plain assignment",
          "a castling successor generated immediately after the opponent's double pawn step: en passant file stays in the key"),
 "C05B": ("C05", "src/board.rs from_fen: en passant key update destructures Point(file, _) - hashes the row index instead of the file",
          "a FEN with an en passant square other than f3 or c6"),
 "C06A": ("C06", "src/move_generation.rs is_check_cords: pawn-row match with fall-through `return false` skipping the enemy-king adjacency test",
          "a white king on rank 8 / black king on rank 1 attacked only by the adjacent enemy king"),
 "C06B": ("C06", "src/move_generation.rs is_check_cords: diagonal ray loop bounded by a constant one step short",
          "a bishop or queen checking from exactly seven squares away (corner to corner on an empty long diagonal)"),
 "C07A": ("C07", "src/engine.rs get_best_move: root accept condition `!out_of_time` replaced by `evaluation < beta`",
          "clock expiring inside the last reply to a root move, or exactly on entry to a null-move probe at iteration depth >= 4 (2 of 1500 expiry points from the start position)"),
 "C07B": ("C07", "src/engine.rs alpha_beta_search: new early return after an aborted null-move probe forgets remove_board_from_draw_table",
          "clock expiring exactly on entry to a null-move probe (iteration depth >= 4): repetition record comes back with +1"),
 "C08A": ("C08", "src/uci.rs find_and_play_best_move: wait loop split into timed polling + blocking recv().unwrap()",
          "a finished game (checkmate/stalemate) together with a 0-1 ms slice: main thread panics, process exits"),
 "C08B": ("C08", "src/engine.rs get_best_move: `continue` in the re-ordering step skips the depth increment when there is no best move",
          "any checkmate/stalemate position: the search thread spins forever, no bestmove, engine unresponsive"),
 "C09A": ("C09", "src/time_control.rs calculate_time_slice: black arm copy-pasted from white takes winc",
          "black to move with btime <= 100 and winc != binc"),
 "C09B": ("C09", "src/uci.rs: one persistent GameTime across go commands, reset only by ucinewgame",
          "two or more go commands in a session where the later one omits a field the earlier one gave (movestogo, increments, a clock)"),
 "C10A": ("C10", "src/uci.rs play_out_position: start position recorded after the replay with entry().or_insert(1)",
          "a move list that returns to the position it started from: its count is one too low"),
 "C10B": ("C10", "src/draw_table.rs is_threefold_repetition: `>= 2` simplified to `== Some(&2)`",
          "a history in which a position occurred three or more times and the worse side can repeat it again"),
 "C11A": ("C11", "src/engine.rs alpha_beta_search: null-move guard tests a stale in_check local that is only computed at depth 0",
          "an opponent mate in one that is a quiet move, visible only from iteration 5 on (virtual clock expiry between consultations ~54k and ~110k on the demo position)"),
 "C11B": ("C11", "src/engine.rs get_best_move: previous best root move re-identified by from/to only",
          "a mate in one that is an under-promotion, clock expiring in iteration >= 2 between the queen promotion being accepted and the knight promotion being re-found"),
 "C12A": ("C12", "src/engine.rs alpha_beta_search: depth-0 block moved before the repetition probe",
          "a history in which a position occurred twice and is reachable exactly on the horizon at iteration depth 1-3 without check"),
 "C12B": ("C12", "src/engine.rs alpha_beta_search: full-window re-search passes ply_from_root instead of ply_from_root + 1",
          "a mate score reaching the root through a re-searched non-first move (forced mates with a quiet mating move)"),
 "C13A": ("C13", "src/move_generation.rs: en passant bookkeeping wrapped in `if mode == AllMoves` again",
          "a position with an en passant square entering capture-only generation, two ordinary captures, then the stale en passant capture"),
 "C13B": ("C13", "src/move_generation.rs: early return in capture-only mode when a piece has no ordinary capture",
          "capture-only generation where a pawn's only capture is en passant"),
 "C14A": ("C14", "src/evaluation.rs: per-side phase cap with a copy-paste condition (black never capped)",
          "black holding more than 12 phase units of non-pawn material (promoted while keeping its pieces)"),
 "C14B": ("C14", "src/evaluation.rs: compile-time rank flip of black's tables with an off-by-one that never copies row 0",
          "a black non-pawn piece or the black king on rank 1"),
 "C15A": ("C15", "src/board.rs from_fen: is_digit(10) replaced by is_numeric() before to_digit(10).unwrap()",
          "a six-field string with a non-ASCII numeric character in the placement field"),
 "C15B": ("C15", "src/main.rs: rejected input echoed, cut with a byte slice at 72",
          "CLI: a rejected input longer than 72 bytes with a multi-byte character straddling byte 72"),
 "C16A": ("C16", "src/uci.rs play_game_uci: identical position line remembered and skipped",
          "the byte-identical position line sent twice with a go in between"),
 "C16B": ("C16", "src/uci.rs play_out_position: early return for a position without a move list skips the table clear",
          "an earlier `position ... moves ...`, then a probed position without move list, and a timed search deep enough to re-enter the old history"),
 "C17A": ("C17", "src/uci.rs parse_go_command: token walk replaced by chunks_exact(2)",
          "an odd number of unknown tokens in front of a clock field (`go ponder wtime ...`): all clock values lost, slice 0"),
 "C17B": ("C17", "src/uci.rs read_from_gui: blank-line skipping loop ignores end of input",
          "standard input closed directly after a blank (or whitespace-only / unterminated) line: process spins forever"),
 "C18A": ("C18", "src/engine.rs get_best_move: root accept condition `cur_depth == 1 || !out_of_time`",
          "clock expiring during iteration 1 between the root's clock check and the child's entry check: `score mate -4949999`"),
 "C18B": ("C18", "src/engine.rs alpha_beta_search: full-window re-search passes ply_from_root instead of +1",
          "depth >= 2 where the first-searched root move allows a quiet mate in one that is not ordered first: `score mate 0`"),
}

R = {
 "regress_F1": ("C01", "undoes fix c9e272a (is_check_cords compares the two cached king squares)", "castling next to the enemy king, e.g. 8/8/8/8/8/8/6k1/4K2R w K -"),
 "regress_F2": ("C02", "undoes fix 73f02f7 (castling / en passant successors keep the parent's pawn_promotion)", "promotion followed by castling or en passant along generated successors"),
 "regress_F3": ("C05", "undoes fix 1520b49 (double step does not XOR out the previous en passant file)", "a double pawn step directly answering a double pawn step, generator route"),
 "regress_F4": ("C13", "undoes fix e3374ec (capture-only mode skips promotion and en passant bookkeeping)", "capture onto the last rank, or captures after a double step, in capture-only generation"),
 "regress_F5": ("C08", "undoes fix 4c24da8 (no answer on finished games)", "go on a checkmate or stalemate position"),
 "regress_F7": ("C10", "undoes fix b39ec12 (== 2 instead of >= 2)", "a position that already occurred three or more times"),
 "regress_F8": ("C11", "undoes fix a685337 (root re-ordering ignores the promotion piece)", "under-promotion mate and a clock expiring inside iteration 2+"),
 "regress_F9": ("C15", "undoes fix bc48954 (Point::from_str unwraps)", "two-byte en passant field that is not a square"),
 "regress_F10": ("C15", "undoes fix 7091e53 (counters parsed as u8)", "FEN with a move counter above 255"),
 "regress_F12": ("C07", "undoes fix d37d57c (no ply guard for the per-ply arrays)", "a tiny search tree searched to depth ~40+ (endgame with a repetition available) so that a line passes ply 100"),
 "regress_F11": ("C17", "undoes fix d933e5d (end of input ignored)", "standard input closed after the handshake"),
}
for mid, (prop, change, needs) in R.items():
    d = f"/verif/seeded/{mid}"
    if not os.path.isdir(d):
        continue
    meta = {"id": mid, "breaks_property": prop, "change": change, "needs_to_manifest": needs,
            "origin": "reverse of one of the `fix:` commits in /repo: the defect found on the original tree, kept as a regression seed (known_findings.json lists it as fixed; a fixed entry suppresses nothing)",
            "files": {"patch": "patch.diff"}}
    dj = os.path.join(d, "detect.json")
    if os.path.exists(dj):
        meta["detection"] = json.load(open(dj))
    json.dump(meta, open(os.path.join(d, "meta.json"), "w"), indent=1)

# hand-made changes from the sensitivity list of DESIGN.md §6 (hand.txt: property, change, what it needs)
for mid in sorted(os.listdir('/verif/seeded')):
    d = f"/verif/seeded/{mid}"
    if not mid.startswith('hand_') or not os.path.exists(f"{d}/hand.txt"):
        continue
    prop, change, needs = open(f"{d}/hand.txt").read().strip().split("\n")[:3]
    meta = {"id": mid, "breaks_property": prop, "change": change, "needs_to_manifest": needs,
            "origin": "written by hand from the sensitivity list of DESIGN.md §6 (simple, classic slips)", "files": {"patch": "patch.diff"}}
    for extra, key in (("confirm.json", "confirmed_by_me"), ("detect.json", "detection")):
        if os.path.exists(os.path.join(d, extra)):
            meta[key] = json.load(open(os.path.join(d, extra)))
    json.dump(meta, open(os.path.join(d, "meta.json"), "w"), indent=1)

for mid, (prop, change, needs) in M.items():
    d = f"/verif/seeded/{mid}"
    if not os.path.isdir(d):
        continue
    meta = {"id": mid, "breaks_property": prop, "change": change, "needs_to_manifest": needs,
            "origin": ("round 2: " if mid[-1] in "CD" else "round 1: ") + "written by an independent sub-agent that was given only the property text and a scratch worktree of /repo (nothing from /verif)" + ("; round 2 agents also got the list of round-1 ideas to avoid, and started from the tree with all repairs" if mid[-1] in "CD" else ""),
            "files": {"patch": "patch.diff", "demonstration": sorted(f for f in os.listdir(d) if f.startswith("demo")), "author_notes": "notes.md"}}
    cj = os.path.join(d, "confirm.json")
    if os.path.exists(cj):
        c = json.load(open(cj))
        meta["confirmed_by_me"] = {
            "how": "tools/confirm_seeded.sh in a scratch worktree of /repo HEAD (/tmp/wv_confirm, removed afterwards): demonstration on the clean tree, `git apply patch.diff`, `cargo test --offline`, demonstration again",
            "demo_exit_clean_tree": c.get("demo_exit_clean_tree"), "demo_exit_with_patch": c.get("demo_exit_with_patch"),
            "existing_tests_with_patch": c.get("existing_tests_with_patch")}
    dj = os.path.join(d, "detect.json")
    if os.path.exists(dj):
        meta["detection"] = json.load(open(dj))
    json.dump(meta, open(os.path.join(d, "meta.json"), "w"), indent=1)
print("meta.json written for", len(M))
